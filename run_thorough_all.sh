#!/bin/bash
# Runs every thorough command in sequence, logging wall time and peak RSS per check.
# usage: ./run_thorough_all.sh [ID ...]   (default: C01..C20)
cd "$(dirname "$0")"
ids=("$@"); [ ${#ids[@]} -eq 0 ] && ids=(C01 C02 C03 C04 C05 C06 C07 C08 C09 C10 C11 C12 C13 C14 C15 C16 C17 C18 C19 C20)
for c in "${ids[@]}"; do
  /usr/bin/time -f "$c wall=%es maxrss=%MKB" ./check $c thorough > out.$c.log 2>&1
  rc=$?
  echo "$c exit=$rc $(tail -1 out.$c.log)"
  grep -E "^(VIOLATION|MACHINERY|KNOWN-FINDING)" out.$c.log | cut -c1-200
  grep -E "thorough: states=" out.$c.log | cut -c1-200
done
