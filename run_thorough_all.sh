#!/bin/bash
# Runs every thorough command in sequence (C01 first), logging wall time and peak RSS per check.
cd "$(dirname "$0")"
for c in C01 C02 C03 C04 C05 C06 C07 C08 C09 C10 C11 C12 C13 C14 C15 C16 C17 C18 C19 C20; do
  /usr/bin/time -f "$c wall=%es maxrss=%MKB" ./check $c thorough > out.$c.log 2>&1
  rc=$?
  echo "$c exit=$rc $(tail -1 out.$c.log)"
  grep -E "^(VIOLATION|MACHINERY|KNOWN-FINDING)" out.$c.log | cut -c1-200
  grep -E "thorough: states=" out.$c.log | cut -c1-200
done
