#!/bin/bash
# Offline build of the engine (both subject feature configurations) and self-tests of the
# reference components.
set -e
cd "$(dirname "$0")"
export CARGO_NET_OFFLINE=true
( cd engine && cargo build --release --offline --target-dir target )
( cd engine && cargo build --release --offline --features subject-std --target-dir target-std )
./engine/target/release/cosetmc selftest
# explorer cross-check against stateright (same state counts on the HeaderBuilder model)
( cd engine && cargo build --release --offline --features xcheck --target-dir target-xcheck )
./engine/target-xcheck/release/cosetmc xcheck
