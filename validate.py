#!/usr/bin/env python3
"""python3-vt validate.py : validates MANIFEST.json and every evidence file against the schemas."""
import json, glob, sys, jsonschema
ok = True
try:
    jsonschema.validate(json.load(open('/verif/MANIFEST.json')), json.load(open('/root/.vp/MANIFEST.schema.json')))
    print('MANIFEST ok')
except Exception as e:
    print('MANIFEST INVALID', e); ok = False
es = json.load(open('/root/.vp/EVIDENCE.schema.json'))
for f in sorted(glob.glob('/verif/evidence/*.json')):
    try:
        jsonschema.validate(json.load(open(f)), es)
    except Exception as e:
        print('EVIDENCE INVALID', f, str(e)[:300]); ok = False
print('evidence files:', len(glob.glob('/verif/evidence/*.json')))
sys.exit(0 if ok else 1)
