#!/usr/bin/env python3
"""Regenerates MANIFEST.json from the table below (kept in one place so the manifest is always valid)."""
import json, sys

CHECKS = {
 "C08": dict(section="4.8", technique="exhaustive enumeration of bounded header maps (explicit-state tree search) with differential check against an independent reference decoder",
   text="Every header map with <= 3 (quick) / 4 (thorough) entries over a ~130-pair alphabet (each rule satisfied and violated alone), in every order, at 5 carrier positions, plus all encodings within 1-2 deviations of small maps, is decoded by the real crate and compared (accept/reject and every field) with an independent reference; exhaustive within the stated bounds.",
   note="Trusted: refcbor/refcose reference components (small, cross-checked at setup), rustc/std, derived Debug of coset types as the observation of decoded values. Bounds: map size, alphabet, encoding deviations."),
}
NOT_YET = {}

def main():
    props = [json.loads(l) for l in open('/verif/properties.jsonl')]
    checks = []
    na = []
    for p in props:
        i = p['id']
        if i in CHECKS:
            c = CHECKS[i]
            checks.append({
                "property_id": i,
                "quick_cmd": f"./check {i} quick",
                "thorough_cmd": f"./check {i} thorough",
                "evidence_file": f"/verif/evidence/{i}.json",
                "replay_cmd_template": f"./check {i} --replay {{path}}",
                "engine": "cosetmc",
                "level_claimed": {"category": "model_checking", "text": c['text'], "design_ref": f"DESIGN.md section {c['section']}"},
                "level_note": c['note'],
                "technique": c['technique'],
            })
        else:
            na.append({"property_id": i, "reason": NOT_YET.get(i, "check not built yet in this revision of /verif (work in progress; see DESIGN.md for the planned space)")})
    m = {
        "version": 1,
        "setup_cmd": "./setup.sh",
        "hooks": {
            "guard": "coset_verif",
            "enable": "no source hooks are needed: every observation point is public API; checks build /repo as a path dependency of /verif/engine (cargo build --release --offline), optionally with feature subject-std = coset/std",
            "baseline_off_cmd": "cd /repo && cargo test --workspace --no-fail-fast --offline",
            "source_commits": [],
            "add_only": True,
        },
        "engines": [{
            "name": "cosetmc",
            "path": "/verif/engine",
            "serves_properties": [c['property_id'] for c in checks],
            "kind_free_text": "explicit-state explorer (choice-tree DFS for input spaces, BFS with canonical-state dedup for builder histories, child-process ladders) running the real crate against independent reference models (refcbor, refcose, refiana)",
        }],
        "checks": checks,
        "not_applicable": na,
        "notes": "All checks rebuild the engine against /repo's working tree (path dependency). Exit 0 held / 1 VIOLATION / 2 machinery failure. Known findings: /verif/known_findings.json.",
    }
    json.dump(m, open('/verif/MANIFEST.json', 'w'), indent=1)
    print(f"{len(checks)} checks, {len(na)} not applicable")

main()
