#!/usr/bin/env python3
"""Regenerates MANIFEST.json from the table below (kept in one place so the manifest is always valid)."""
import json, sys

TRUST = "Trusted: the reference components refcbor/refcose/refiana (small, independent of coset and ciborium, cross-checked at setup), rustc/std, derived Debug of coset types as the observation of decoded values. Exhaustive only within the stated bounds (see evidence coverage.bounds and DESIGN.md section 8)."
CHECKS = {
 "C01": dict(section="4.1", technique="exhaustive enumeration of all short byte strings x all entry points, of all structured inputs of the other spaces with all follow-up operations, and depth/width ladders over every recursion cycle of the decoder, each in crash-isolating child processes with a counting allocator",
   text="All byte strings of length <= 3 (quick) / 4 (thorough) into all 37 byte-level entry points; every structured input of the C07-C18 spaces with every follow-up operation (re-encode, clone, ==, Debug, drop, all tbs/verify/MAC/decrypt helpers); ladders to 64 KiB / 1 MiB over 84 words of the header<->counter-signature recursion graph, nested recipients, array/map/tag nesting and 16 width families, on an 8 MiB and a 2 MiB stack, for the crate built with and without `std`: no panic, no abnormal exit, heap and time linear in the input.",
   note="Trusted: child exit status / signal as the crash observation; the counting global allocator of the engine; default stack sizes of the sandbox (ulimit -s 8 MiB; std::thread 2 MiB). Bounds: string length for the exhaustive sweep, 64 KiB / 1 MiB for ladders, the family list."),
 "C02": dict(section="4.2", technique="exhaustive enumeration of header contents x encodings within a deviation bound x byte-string wrappers x carrier positions; retention, re-encoding and crypto-structure slots checked on the real crate",
   text="Every encoding within 1 (quick) / 2 (thorough) deviations of 20 header contents, plus the three empty forms, carried definite / wide-head / chunked at 21 protected carrier positions and on its own through ProtectedHeader::from_cbor_bstr: original_data and parsed view equal the reference at every nesting level, the re-encoding carries exactly the wire bytes, and every to-be-signed / MAC / AEAD structure obtainable from the decoded value carries them in its protected slot(s)."),
 "C03": dict(section="4.3", technique="exhaustive product of contexts x protected-header forms x signer forms x bstr length classes x payload placement over every API route; byte equality with an independent deterministic encoder",
   text="All tuples (3 contexts x 20 body forms x {absent, 20 signer forms}, one built header per registered algorithm x AAD/payload length classes 0..65536 x embedded/detached/absent x 1..3 signers at every index) through sig_structure_data, tbs_data, tbs_detached_data and the closure argument of every create/add/try/verify variant; documented panics iff documented; injectivity table."),
 "C04": dict(section="4.4", technique="exhaustive product {MAC, MAC0} x protected forms x bstr length classes x payload presence over every API route; byte equality with an independent deterministic encoder",
   text="All tuples through mac_structure_data, create_tag, try_create_tag and verify_tag on built and decoded messages; MAC/MAC0 separation; no-payload refusal without calling the closure."),
 "C05": dict(section="4.5", technique="exhaustive product of five contexts x protected forms x AAD length classes x ciphertext presence over every carrier and API route; byte equality with an independent deterministic encoder",
   text="All tuples through enc_structure_data, create_ciphertext / try_create_ciphertext / decrypt of Encrypt, Encrypt0 and recipients (top-level and nested) with each recipient context; non-recipient context and missing ciphertext refused; no two contexts collide; plaintext/ciphertext passed through."),
 "C06": dict(section="4.6", technique="explicit-state breadth-first search over builder call sequences on the real builders with canonical-state de-duplication; every reached state is serialised, parsed back and verified with recording closures",
   text="All call sequences up to depth 5 (quick) / 8 (thorough); 4 / 5 for COSE_Sign, of the seven message builders, plus pumped histories (an operation repeated 9..129 times) incl. every create / try / detached helper; at every state every non-stale created slot is verified after an untagged and a tagged wire round trip: the verifier closure gets exactly the stored value and exactly the creator's bytes, results pass through, every perturbation of AAD / payload / body protected / signer protected changes the bytes; failing creators yield their error and no message."),
 "C07": dict(section="4.7", technique="exhaustive bounded enumeration of structured inputs (explicit-state tree search); one-step fixed-point oracle on the real encoder/decoder",
   text="Every input of the structured spaces of C08/C09/C10/C12/C14/C15/C18 plus dedicated non-canonical families (all encodings within 2 deviations incl. bignum and indefinite forms) is decoded; for each accepted one: re-encode, re-decode, compare value (incl. retained protected bytes) and second encoding, tagged forms too."),
 "C08": dict(section="4.8", technique="exhaustive enumeration of bounded header maps (explicit-state tree search) with differential check against an independent reference decoder",
   text="Every header map with <= 3 (quick) / 4 (thorough) entries over a ~150-pair alphabet (each rule satisfied and violated alone), in every order, at up to 33 carrier positions, every registered header label and its neighbours with every value shape, wide maps of 9..300 entries, all byte strings of <= 2/3 bytes, plus all encodings within 1-2 deviations of small maps, is decoded by the real crate and compared (accept/reject and every field) with an independent reference."),
 "C09": dict(section="4.9", technique="exhaustive enumeration of arrays over a slot alphabet (explicit-state product search), each decoded as all eight structure types, compared with an independent reference",
   text="All arrays of arity 3,4,5 over a 58-value slot alphabet (13 values for arity 5 in quick, 49 in thorough), every registered algorithm at every alg position of a representative of each structure, opaque contents at every head-width threshold and with CBOR-/DER-/JSON-looking bytes in every byte-string slot, lists of 17/40 nested elements with the fault first / middle / last, all byte strings of <= 2/3 bytes, and arity 0,1,2,6,7 over a reduced one, every non-array kind, decoded as each of the 8 structure types untagged and tagged; accept/reject and every field compared with the reference CDDL rules; encodings within 1-2 deviations."),
 "C10": dict(section="4.10", technique="exhaustive enumeration of bounded key maps and key sets (explicit-state tree search) against an independent reference decoder",
   text="Every COSE_Key map with <= 3/4 entries over a ~70-pair alphabet in every order (kty at every position, absent, reserved, duplicated), as a key and inside a key set; every key type x every registered key-parameter label x every value shape with the label before and after kty; all key sets of 0..3 valid/invalid elements; encodings within 1-2 deviations."),
 "C11": dict(section="4.11", technique="exhaustive enumeration of per-field palette products of in-memory values for every type; real encoder output read by an independent CBOR parser and compared with a reference encoder",
   text="~23k values (full products of per-field palettes for headers, keys, claims; all 8 message types over protected/unprotected/payload/nested-list palettes; labels and every registered value of every registry label type): to_vec succeeds, output is definite-length with shortest heads, independently parsed output equals the reference encoding (maps modulo order, extras in order, protected slots parsed), decoding the output returns the value, tagged forms too; == tells apart every pair of palette values (within a window of 256 in enumeration order) whose encodings differ."),
 "C12": dict(section="4.12", technique="exhaustive enumeration of duplicate-label placements x label encodings x carriers (decode) and of colliding in-memory values (encode)",
   text="Decode: every label of a boundary-crossing set x every pair of encodings x every pair of positions in maps of size 2..4 x every carrier (33 header positions, key, key set, claims), every pair of values incl. the field defaults, and maps of 9..65 entries with the repeat at every pair of positions: must be rejected, with the duplicate-key error when it is the only fault. Encode: every in-memory header / key / claims set (alone and embedded in 14 carriers) whose extras repeat a label or name a populated typed field in any of its shape variants must fail to encode or emit pairwise distinct keys."),
 "C13": dict(section="4.13", technique="exhaustive prefix/suffix enumeration over every accepted input of the structured spaces; layer-agreement differential on every input",
   text="For every accepted input of the (reduced-bound) structured spaces: all proper prefixes rejected, 265 suffixes rejected with the extraneous-data error; for every input byte API == Value API in both directions, tagged forms included."),
 "C14": dict(section="4.14", technique="exhaustive product 6 types x 16 tags x head widths x bodies x tagging depth through both entry points",
   text="Exact iff of the statement for every combination, plus bytewise to_tagged_vec == tag head || to_vec and tagged round trip."),
 "C15": dict(section="4.15", technique="exhaustive enumeration of an integer boundary lattice and window x interpreting positions x head widths against exact-arithmetic reference",
   text="~1.3k lattice integers in [-2^64, 2^64-1] plus a window (+-3000 quick / +-70000 thorough) at 49 positions and the 33 header carrier positions under every head width: exact value or out-of-range error; extras preserved; re-encoding reads back as the same integer with a minimal head."),
 "C16": dict(section="4.16", technique="exhaustive enumeration of all pairs and triples over a boundary-crossing label set for Label and all 12 registry label instantiations",
   text="Order laws (Eq-consistency, antisymmetry, partial_cmp, transitivity on all triples) and agreement of cmp / cmp_canonical with bytewise / length-first comparison of independently produced deterministic encodings."),
 "C17": dict(section="4.17", technique="exhaustive enumeration of [-70000,70000] + 64-bit extremes over all 16 registry enums and all label-typed decode positions against a registry snapshot",
   text="from_i64/to_i64/Debug name/is_private compared with the refiana snapshot for every integer of the window in every registry, every snapshot row must be hit; classification through decoding at every label-typed position."),
 "C18": dict(section="4.18", technique="exhaustive enumeration of bounded claims maps and KDF-context arrays (explicit-state tree/product search) against an independent reference, with re-encode/decode of every accepted value",
   text="All claims maps with <= 3/4 entries over a ~110-pair alphabet; every registered claim name and its neighbours with every value shape; all PartyInfo / SuppPubInfo arrays of arity 0..4-5 over slot alphabets; all KDF contexts over (alg x party x party x supp x trailing) alphabets; accept/reject, fields (private KDF fields via builder-constructed expected value and via re-encoding) and fixed point."),
 "C19": dict(section="4.19", technique="explicit-state breadth-first search over call sequences of all 14 real builders against a field-map model, conformance checked on every transition",
   text="All call sequences up to depth 4 (quick) / 6 (thorough) for the header (27 ops) and key (10 initial states x 22 ops) builders, 4 / 5 for claims (33+ ops), 5 / 8 for the message builders (COSE_Sign 4 / 6) and the small ones, plus pumped histories (an operation repeated 9..129 times): build() after every transition equals the documented effect (setter replaces, adder appends, later wins, IV/Partial-IV exclusion, constructors), reserved labels are refused with a panic and every other label appended."),
 "C20": dict(section="4.20", technique="exhaustive enumeration of keys: typed-field subsets x every ordered selection of <= 3/5 extra labels from a 16-label palette x both orderings, in-memory and decoded; wide keys (20..100 extras sharing encoded lengths) and labels straddling every head-width threshold",
   text="After canonicalize the emitted map keys (read by the independent parser) are strictly ascending under the chosen ordering, the pair set is unchanged, a second canonicalize is a no-op and decode/re-encode reproduces the bytes."),
}
for c in CHECKS.values():
    c.setdefault('note', TRUST)
NOT_YET = {}

def main():
    props = [json.loads(l) for l in open('/verif/properties.jsonl')]
    checks = []
    na = []
    for p in props:
        i = p['id']
        if i in CHECKS:
            c = CHECKS[i]
            checks.append({
                "property_id": i,
                "quick_cmd": f"./check {i} quick",
                "thorough_cmd": f"./check {i} thorough",
                "evidence_file": f"/verif/evidence/{i}.json",
                "replay_cmd_template": f"./check {i} --replay {{path}}",
                "engine": "cosetmc",
                "level_claimed": {"category": "model_checking", "text": c['text'], "design_ref": f"DESIGN.md section {c['section']}"},
                "level_note": c['note'],
                "technique": c['technique'],
            })
        else:
            na.append({"property_id": i, "reason": NOT_YET.get(i, "check not built yet in this revision of /verif (work in progress; see DESIGN.md for the planned space)")})
    m = {
        "version": 1,
        "setup_cmd": "./setup.sh",
        "hooks": {
            "guard": "coset_verif",
            "enable": "no source hooks are needed: every observation point is public API; checks build /repo as a path dependency of /verif/engine (cargo build --release --offline), optionally with feature subject-std = coset/std",
            "baseline_off_cmd": "cd /repo && cargo test --workspace --no-fail-fast --offline",
            "source_commits": [],
            "add_only": True,
        },
        "engines": [{
            "name": "cosetmc",
            "path": "/verif/engine",
            "serves_properties": [c['property_id'] for c in checks],
            "kind_free_text": "explicit-state explorer (choice-tree DFS for input spaces, BFS with canonical-state dedup for builder histories, child-process ladders) running the real crate against independent reference models (refcbor, refcose, refiana)",
        }],
        "checks": checks,
        "not_applicable": na,
        "notes": "All checks rebuild the engine against /repo's working tree (path dependency). Exit 0 held / 1 VIOLATION / 2 machinery failure. Known findings: /verif/known_findings.json.",
    }
    json.dump(m, open('/verif/MANIFEST.json', 'w'), indent=1)
    print(f"{len(checks)} checks, {len(na)} not applicable")

main()
