//! Explorer plumbing: per-run report (states, transitions, outcomes, samples), violations with
//! replay files, known findings, evidence output.

use serde_json::{json, Value as Json};
use std::collections::{BTreeMap, HashSet};
use std::hash::{Hash, Hasher};
use std::sync::Mutex;
use std::time::Instant;

#[derive(Clone, Copy, Debug, PartialEq, Eq)]
pub enum Tier {
    Quick,
    Thorough,
}

impl Tier {
    pub fn name(self) -> &'static str {
        match self {
            Tier::Quick => "quick",
            Tier::Thorough => "thorough",
        }
    }
    pub fn pick<T>(self, q: T, t: T) -> T {
        match self {
            Tier::Quick => q,
            Tier::Thorough => t,
        }
    }
}

/// One violated check on one concrete case.
#[derive(Clone, Debug)]
pub struct Viol {
    /// structural fingerprint (matched against known_findings.json)
    pub key: String,
    /// space that produced the case
    pub space: String,
    /// unique, stable description of the case inside its space (replay searches for it)
    pub case: String,
    /// data for direct replay without the enumerator, if the case is self-contained
    pub direct: Option<Json>,
    pub expected: String,
    pub observed: String,
}

pub fn hash64<T: Hash + ?Sized>(t: &T) -> u64 {
    let mut h = std::collections::hash_map::DefaultHasher::new();
    t.hash(&mut h);
    h.finish()
}

/// Thread-local accumulator, merged into the `Report` when a partition is done.
#[derive(Default)]
pub struct Local {
    pub states: u64,
    pub transitions: u64,
    pub evaluations: u64,
    pub impl_checked: u64,
    pub nontrivial: HashSet<u64>,
    /// non-trivial distinct cases counted elsewhere (child processes over disjoint sub-spaces)
    pub nontrivial_extra: u64,
    pub counters: BTreeMap<String, u64>,
    pub samples: Vec<Json>,
    pub viols: Vec<Viol>,
    pub max_depth: u64,
}

impl Local {
    pub fn count(&mut self, k: &str) {
        *self.counters.entry(k.to_string()).or_insert(0) += 1;
    }
    pub fn add(&mut self, k: &str, n: u64) {
        *self.counters.entry(k.to_string()).or_insert(0) += n;
    }
    /// A tree node / model state was generated.
    pub fn state(&mut self, depth: u64) {
        self.states += 1;
        if depth > 0 {
            self.transitions += 1;
        }
        if depth > self.max_depth {
            self.max_depth = depth;
        }
    }
    pub fn nontrivial<T: Hash + ?Sized>(&mut self, t: &T) {
        self.nontrivial.insert(hash64(t));
    }
    pub fn sample(&mut self, j: impl FnOnce() -> Json) {
        if self.samples.len() < 3 {
            self.samples.push(j());
        }
    }
    pub fn viol(&mut self, v: Viol) {
        // caps are per fingerprint, so that a flood of one kind (e.g. a known finding) can never
        // crowd out a different violation
        let n = self.viols.iter().filter(|x| x.key == v.key).count();
        if n < 4 && self.viols.len() < 400 {
            self.viols.push(v);
        }
        self.count("violating_cases");
    }
}

pub struct Report {
    pub id: String,
    pub tier: Tier,
    pub start: Instant,
    inner: Mutex<Local>,
    pub bounds: Mutex<BTreeMap<String, Json>>,
    pub rule: Mutex<String>,
    pub assumptions: Mutex<Vec<String>>,
    pub exhaustive: Mutex<bool>,
}

impl Report {
    pub fn new(id: &str, tier: Tier) -> Report {
        Report {
            id: id.to_string(),
            tier,
            start: Instant::now(),
            inner: Mutex::new(Local::default()),
            bounds: Mutex::new(BTreeMap::new()),
            rule: Mutex::new(String::new()),
            assumptions: Mutex::new(Vec::new()),
            exhaustive: Mutex::new(true),
        }
    }
    pub fn merge(&self, l: Local) {
        let mut g = self.inner.lock().unwrap();
        g.states += l.states;
        g.transitions += l.transitions;
        g.evaluations += l.evaluations;
        g.impl_checked += l.impl_checked;
        g.max_depth = g.max_depth.max(l.max_depth);
        g.nontrivial.extend(l.nontrivial);
        g.nontrivial_extra += l.nontrivial_extra;
        for (k, v) in l.counters {
            *g.counters.entry(k).or_insert(0) += v;
        }
        for s in l.samples {
            if g.samples.len() < 8 {
                g.samples.push(s);
            }
        }
        for v in l.viols {
            let n = g.viols.iter().filter(|x| x.key == v.key).count();
            if n < 12 && g.viols.len() < 5000 {
                g.viols.push(v);
            }
        }
    }
    pub fn bound(&self, k: &str, v: Json) {
        self.bounds.lock().unwrap().insert(k.to_string(), v);
    }
    pub fn set_rule(&self, r: &str) {
        let mut g = self.rule.lock().unwrap();
        if !g.is_empty() {
            g.push_str(" | ");
        }
        g.push_str(r);
    }
    pub fn assume(&self, a: &str) {
        self.assumptions.lock().unwrap().push(a.to_string());
    }
    pub fn not_exhaustive(&self, why: &str) {
        *self.exhaustive.lock().unwrap() = false;
        self.bound("cap_hit", json!(why));
    }
    pub fn counter(&self, k: &str) -> u64 {
        *self.inner.lock().unwrap().counters.get(k).unwrap_or(&0)
    }
    pub fn take(&self) -> Local {
        std::mem::take(&mut *self.inner.lock().unwrap())
    }
}

/// Run `f` over all partitions in parallel; each gets its own `Local`.
pub fn par_partitions<P: Send + Sync>(rep: &Report, parts: Vec<P>, f: impl Fn(&P, &mut Local) + Sync) {
    use rayon::prelude::*;
    parts.par_iter().for_each(|p| {
        let mut l = Local::default();
        f(p, &mut l);
        rep.merge(l);
    });
}

// ---------------------------------------------------------------------------------------------
// Known findings

#[derive(Clone, Debug)]
pub struct Finding {
    pub property: String,
    pub key: String,
    pub status: String,
    pub what: String,
}

pub fn load_findings(verif: &str) -> Vec<Finding> {
    let p = format!("{}/known_findings.json", verif);
    let txt = match std::fs::read_to_string(&p) {
        Ok(t) => t,
        Err(_) => return vec![],
    };
    let j: Json = serde_json::from_str(&txt).unwrap_or_else(|e| {
        eprintln!("MACHINERY: cannot parse {}: {}", p, e);
        std::process::exit(2)
    });
    let mut out = vec![];
    for f in j["findings"].as_array().cloned().unwrap_or_default() {
        out.push(Finding {
            property: f["property"].as_str().unwrap_or("").to_string(),
            key: f["key"].as_str().unwrap_or("").to_string(),
            status: f["status"].as_str().unwrap_or("").to_string(),
            what: f["what"].as_str().unwrap_or("").to_string(),
        });
    }
    out
}

fn key_matches(pattern: &str, key: &str) -> bool {
    if let Some(p) = pattern.strip_suffix('*') {
        key.starts_with(p)
    } else {
        pattern == key
    }
}

// ---------------------------------------------------------------------------------------------
// Finishing a run

pub struct Finish {
    pub exit_code: i32,
}

pub fn verif_dir() -> String {
    std::env::var("VERIF_DIR").unwrap_or_else(|_| "/verif".to_string())
}

/// Write evidence, print VIOLATION / KNOWN-FINDING lines, compute the exit code.
pub fn finish(rep: &Report, min_states: u64, recheck: &dyn Fn(&str, &Viol) -> Option<bool>) -> Finish {
    let verif = verif_dir();
    let l = rep.take();
    let findings = load_findings(&verif);
    let mut known: BTreeMap<String, (Finding, u64, String)> = BTreeMap::new();
    let mut fresh: Vec<Viol> = Vec::new();
    let mut fresh_keys: HashSet<String> = HashSet::new();
    // shortest cases first: the first counterexample reported per fingerprint is the simplest
    let mut sorted: Vec<&Viol> = l.viols.iter().collect();
    sorted.sort_by(|a, b| (a.case.len(), &a.case, &a.key).cmp(&(b.case.len(), &b.case, &b.key)));
    for v in sorted {
        let f = findings
            .iter()
            .find(|f| f.property == rep.id && f.status == "open" && key_matches(&f.key, &v.key));
        match f {
            Some(f) => {
                let e = known.entry(f.key.clone()).or_insert((f.clone(), 0, v.case.clone()));
                e.1 += 1;
            }
            None => {
                // report at most 5 cases per fingerprint
                let n = fresh.iter().filter(|x| x.key == v.key).count();
                let dup = fresh.iter().any(|x| x.key == v.key && x.case == v.case);
                if n < 2 && fresh.len() < 24 && !dup {
                    fresh.push(v.clone());
                }
                fresh_keys.insert(v.key.clone());
            }
        }
    }
    // determinism: a self-contained case must reproduce when executed again, outside the explorer
    for v in &fresh {
        if let Some(false) = recheck(&rep.id, v) {
            eprintln!("MACHINERY: violation {} on case {} did not reproduce on immediate re-execution (nondeterminism in the harness?)", v.key, truncate(&v.case, 200));
            return Finish { exit_code: 2 };
        }
    }
    let _ = std::fs::create_dir_all(format!("{}/evidence", verif));
    let _ = std::fs::create_dir_all(format!("{}/replays", verif));
    let mut replay_paths = Vec::new();
    for v in &fresh {
        let digest = hash64(&(v.space.as_str(), v.case.as_str(), v.key.as_str()));
        let path = format!("{}/replays/{}-{:016x}.json", verif, rep.id, digest);
        let j = json!({
            "property": rep.id,
            "space": v.space,
            "key": v.key,
            "case": v.case,
            "direct": v.direct,
            "expected": v.expected,
            "observed": v.observed,
            "tier": rep.tier.name(),
        });
        let _ = std::fs::write(&path, serde_json::to_string_pretty(&j).unwrap());
        replay_paths.push(path);
    }
    let wall = rep.start.elapsed().as_secs_f64();
    let counters: serde_json::Map<String, Json> = l.counters.iter().map(|(k, v)| (k.clone(), json!(v))).collect();
    let bounds: serde_json::Map<String, Json> = rep.bounds.lock().unwrap().iter().map(|(k, v)| (k.clone(), v.clone())).collect();
    let seed: i64 = std::env::var("VERIF_SEED").ok().and_then(|s| s.parse().ok()).unwrap_or(0);
    let mut samples = l.samples.clone();
    if samples.is_empty() {
        samples.push(json!("(no sample recorded)"));
    }
    let ev = json!({
        "property_id": rep.id,
        "tier": rep.tier.name(),
        "seed": seed,
        "level": "model_checking",
        "coverage": {
            "states": l.states,
            "transitions": l.transitions,
            "traces_validated_against_impl": l.impl_checked,
            "evaluations": l.evaluations,
            "distinct_nontrivial": l.nontrivial.len() as u64 + l.nontrivial_extra,
            "rule": rep.rule.lock().unwrap().clone(),
            "samples": samples,
            "exhaustive": *rep.exhaustive.lock().unwrap(),
            "max_depth": l.max_depth,
            "bounds": bounds,
            "counters": counters,
            "explanation": "every state is a concrete input / builder history executed on the real crate and compared with the independent reference model at that state (no sampling; VERIF_SEED is recorded but unused)",
        },
        "assumptions": rep.assumptions.lock().unwrap().clone(),
        "wall_s": wall,
        "violations": fresh_keys.len(),
        "known_findings_seen": known.iter().map(|(k, (_, n, c))| json!({"key": k, "cases": n, "first_case": c})).collect::<Vec<_>>(),
    });
    let evp = format!("{}/evidence/{}.json", verif, rep.id);
    if let Err(e) = std::fs::write(&evp, serde_json::to_string_pretty(&ev).unwrap()) {
        eprintln!("MACHINERY: cannot write {}: {}", evp, e);
        return Finish { exit_code: 2 };
    }
    println!(
        "{} {}: states={} transitions={} evaluations={} impl_checked={} distinct_nontrivial={} wall={:.1}s",
        rep.id,
        rep.tier.name(),
        l.states,
        l.transitions,
        l.evaluations,
        l.impl_checked,
        l.nontrivial.len() as u64 + l.nontrivial_extra,
        wall
    );
    for (k, v) in &l.counters {
        println!("  {:<48} {}", k, v);
    }
    for (k, (f, n, c)) in &known {
        println!("KNOWN-FINDING: property={} {} [{}; {} case(s), e.g. {}]", rep.id, f.what, k, n, c);
    }
    for (v, p) in fresh.iter().zip(&replay_paths) {
        println!("VIOLATION property={} replay={}", rep.id, p);
        println!("    key: {}", v.key);
        println!("    case: {} / {}", v.space, truncate(&v.case, 400));
        println!("    expected: {}", truncate(&v.expected, 600));
        println!("    observed: {}", truncate(&v.observed, 600));
    }
    if !fresh.is_empty() {
        return Finish { exit_code: 1 };
    }
    if l.states < min_states || l.impl_checked == 0 {
        eprintln!("MACHINERY: vacuous run (states={} < {} or nothing checked on the implementation)", l.states, min_states);
        return Finish { exit_code: 2 };
    }
    Finish { exit_code: 0 }
}

pub fn truncate(s: &str, n: usize) -> String {
    if s.len() <= n {
        s.to_string()
    } else {
        let mut end = n;
        while !s.is_char_boundary(end) {
            end -= 1;
        }
        format!("{}…({} bytes)", &s[..end], s.len())
    }
}

/// Odometer over mixed radices: calls `f` with every digit vector.
pub fn odometer(radices: &[usize], mut f: impl FnMut(&[usize])) {
    if radices.iter().any(|r| *r == 0) {
        return;
    }
    let mut d = vec![0usize; radices.len()];
    loop {
        f(&d);
        let mut i = radices.len();
        loop {
            if i == 0 {
                return;
            }
            i -= 1;
            d[i] += 1;
            if d[i] < radices[i] {
                break;
            }
            d[i] = 0;
        }
    }
}
