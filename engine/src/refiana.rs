//! Snapshot of the IANA registries that coset enumerates, typed in from RFC 8152 (sections 3.1,
//! 7, 8, 10-13), RFC 8230, RFC 8392, RFC 8778, RFC 8812, RFC 9021, RFC 9360, RFC 7252 section
//! 12.3 and the registry pages (cose, cbor-tags, core-parameters#content-formats, cwt) as of the
//! dates quoted in coset's iana module (2021-03-19; CWT claims 2021-10-21).
//!
//! The *identifier* column is coset's variant name (that is the binding between the registry
//! entry and the code); the *integer* column is the registry's assignment and is the oracle.

#[derive(Clone, Copy, Debug, PartialEq, Eq, Hash, PartialOrd, Ord)]
pub enum Reg {
    HeaderParameter,
    HeaderAlgorithmParameter,
    Algorithm,
    KeyParameter,
    OkpKeyParameter,
    Ec2KeyParameter,
    RsaKeyParameter,
    SymmetricKeyParameter,
    HssLmsKeyParameter,
    WalnutDsaKeyParameter,
    KeyType,
    EllipticCurve,
    KeyOperation,
    CborTag,
    CoapContentFormat,
    CwtClaimName,
}

pub const ALL_REGS: [Reg; 16] = [
    Reg::HeaderParameter,
    Reg::HeaderAlgorithmParameter,
    Reg::Algorithm,
    Reg::KeyParameter,
    Reg::OkpKeyParameter,
    Reg::Ec2KeyParameter,
    Reg::RsaKeyParameter,
    Reg::SymmetricKeyParameter,
    Reg::HssLmsKeyParameter,
    Reg::WalnutDsaKeyParameter,
    Reg::KeyType,
    Reg::EllipticCurve,
    Reg::KeyOperation,
    Reg::CborTag,
    Reg::CoapContentFormat,
    Reg::CwtClaimName,
];

/// Registries for which the COSE / CWT specifications set aside "less than -65536" for private use
/// *and* coset exposes that range.
pub const PRIVATE_REGS: [Reg; 4] = [Reg::Algorithm, Reg::HeaderParameter, Reg::EllipticCurve, Reg::CwtClaimName];

pub fn has_private_range(r: Reg) -> bool {
    PRIVATE_REGS.contains(&r)
}

/// RFC 8152 section 16 / RFC 8392 section 9.1: "Integer values less than -65536 are marked as
/// Private Use".
pub fn is_private(i: i64) -> bool {
    i < -65536
}

pub type Row = (&'static str, i64);

pub fn table(r: Reg) -> &'static [Row] {
    match r {
        // RFC 8152 table 2 + table 27; RFC 9360 (x5*); RFC 8613 (kid context); FIDO CUPH
        Reg::HeaderParameter => &[
            ("Reserved", 0),
            ("Alg", 1),
            ("Crit", 2),
            ("ContentType", 3),
            ("Kid", 4),
            ("Iv", 5),
            ("PartialIv", 6),
            ("CounterSignature", 7),
            ("CounterSignature0", 9),
            ("KidContext", 10),
            ("X5Bag", 32),
            ("X5Chain", 33),
            ("X5T", 34),
            ("X5U", 35),
            ("CuphNonce", 256),
            ("CuphOwnerPubKey", 257),
        ],
        // RFC 8152 tables 13, 14, 19
        Reg::HeaderAlgorithmParameter => &[
            ("PartyVOther", -26),
            ("PartyVNonce", -25),
            ("PartyVIdentity", -24),
            ("PartyUOther", -23),
            ("PartyUNonce", -22),
            ("PartyUIdentity", -21),
            ("Salt", -20),
            ("StaticKeyId", -3),
            ("StaticKey", -2),
            ("EphemeralKey", -1),
        ],
        // RFC 8152 tables 5-7, 9-12, 15-18, 20; RFC 8230; RFC 8812; RFC 8778; RFC 9054; RFC 9021
        Reg::Algorithm => &[
            ("RS1", -65535),
            ("WalnutDSA", -260),
            ("RS512", -259),
            ("RS384", -258),
            ("RS256", -257),
            ("ES256K", -47),
            ("HSS_LMS", -46),
            ("SHAKE256", -45),
            ("SHA_512", -44),
            ("SHA_384", -43),
            ("RSAES_OAEP_SHA_512", -42),
            ("RSAES_OAEP_SHA_256", -41),
            ("RSAES_OAEP_RFC_8017_default", -40),
            ("PS512", -39),
            ("PS384", -38),
            ("PS256", -37),
            ("ES512", -36),
            ("ES384", -35),
            ("ECDH_SS_A256KW", -34),
            ("ECDH_SS_A192KW", -33),
            ("ECDH_SS_A128KW", -32),
            ("ECDH_ES_A256KW", -31),
            ("ECDH_ES_A192KW", -30),
            ("ECDH_ES_A128KW", -29),
            ("ECDH_SS_HKDF_512", -28),
            ("ECDH_SS_HKDF_256", -27),
            ("ECDH_ES_HKDF_512", -26),
            ("ECDH_ES_HKDF_256", -25),
            ("SHAKE128", -18),
            ("SHA_512_256", -17),
            ("SHA_256", -16),
            ("SHA_256_64", -15),
            ("SHA_1", -14),
            ("Direct_HKDF_AES_256", -13),
            ("Direct_HKDF_AES_128", -12),
            ("Direct_HKDF_SHA_512", -11),
            ("Direct_HKDF_SHA_256", -10),
            ("EdDSA", -8),
            ("ES256", -7),
            ("Direct", -6),
            ("A256KW", -5),
            ("A192KW", -4),
            ("A128KW", -3),
            ("Reserved", 0),
            ("A128GCM", 1),
            ("A192GCM", 2),
            ("A256GCM", 3),
            ("HMAC_256_64", 4),
            ("HMAC_256_256", 5),
            ("HMAC_384_384", 6),
            ("HMAC_512_512", 7),
            ("AES_CCM_16_64_128", 10),
            ("AES_CCM_16_64_256", 11),
            ("AES_CCM_64_64_128", 12),
            ("AES_CCM_64_64_256", 13),
            ("AES_MAC_128_64", 14),
            ("AES_MAC_256_64", 15),
            ("ChaCha20Poly1305", 24),
            ("AES_MAC_128_128", 25),
            ("AES_MAC_256_128", 26),
            ("AES_CCM_16_128_128", 30),
            ("AES_CCM_16_128_256", 31),
            ("AES_CCM_64_128_128", 32),
            ("AES_CCM_64_128_256", 33),
            ("IV_GENERATION", 34),
        ],
        // RFC 8152 table 3
        Reg::KeyParameter => &[("Reserved", 0), ("Kty", 1), ("Kid", 2), ("Alg", 3), ("KeyOps", 4), ("BaseIv", 5)],
        // RFC 8152 table 24
        Reg::OkpKeyParameter => &[("Crv", -1), ("X", -2), ("D", -4)],
        // RFC 8152 table 23
        Reg::Ec2KeyParameter => &[("Crv", -1), ("X", -2), ("Y", -3), ("D", -4)],
        // RFC 8230 table 4
        Reg::RsaKeyParameter => &[
            ("N", -1),
            ("E", -2),
            ("D", -3),
            ("P", -4),
            ("Q", -5),
            ("DP", -6),
            ("DQ", -7),
            ("QInv", -8),
            ("Other", -9),
            ("RI", -10),
            ("DI", -11),
            ("TI", -12),
        ],
        // RFC 8152 table 25
        Reg::SymmetricKeyParameter => &[("K", -1)],
        // RFC 8778 section 5
        Reg::HssLmsKeyParameter => &[("Pub", -1)],
        // WalnutDSA registration
        Reg::WalnutDsaKeyParameter => &[
            ("N", -1),
            ("Q", -2),
            ("TValues", -3),
            ("Matrix1", -4),
            ("Permutation1", -5),
            ("Matrix2", -6),
        ],
        // RFC 8152 table 21, RFC 8230, RFC 8778, WalnutDSA
        Reg::KeyType => &[
            ("Reserved", 0),
            ("OKP", 1),
            ("EC2", 2),
            ("RSA", 3),
            ("Symmetric", 4),
            ("HSS_LMS", 5),
            ("WalnutDSA", 6),
        ],
        // RFC 8152 table 22, RFC 8812
        Reg::EllipticCurve => &[
            ("Reserved", 0),
            ("P_256", 1),
            ("P_384", 2),
            ("P_521", 3),
            ("X25519", 4),
            ("X448", 5),
            ("Ed25519", 6),
            ("Ed448", 7),
            ("Secp256k1", 8),
        ],
        // RFC 8152 table 4
        Reg::KeyOperation => &[
            ("Sign", 1),
            ("Verify", 2),
            ("Encrypt", 3),
            ("Decrypt", 4),
            ("WrapKey", 5),
            ("UnwrapKey", 6),
            ("DeriveKey", 7),
            ("DeriveBits", 8),
            ("MacCreate", 9),
            ("MacVerify", 10),
        ],
        // RFC 8152 table 1, RFC 8392 section 9.3
        Reg::CborTag => &[
            ("CoseEncrypt0", 16),
            ("CoseMac0", 17),
            ("CoseSign1", 18),
            ("Cwt", 61),
            ("CoseEncrypt", 96),
            ("CoseMac", 97),
            ("CoseSign", 98),
        ],
        // RFC 7252 section 12.3 and later registrations
        Reg::CoapContentFormat => &[
            ("TextPlainUtf8", 0),
            ("CoseEncrypt0", 16),
            ("CoseMac0", 17),
            ("CoseSign1", 18),
            ("LinkFormat", 40),
            ("Xml", 41),
            ("OctetStream", 42),
            ("Exi", 47),
            ("Json", 50),
            ("JsonPatchJson", 51),
            ("MergePatchJson", 52),
            ("Cbor", 60),
            ("Cwt", 61),
            ("MultipartCore", 62),
            ("CborSeq", 63),
            ("CoseEncrypt", 96),
            ("CoseMac", 97),
            ("CoseSign", 98),
            ("CoseKey", 101),
            ("CoseKeySet", 102),
            ("SenmlJson", 110),
            ("SensmlJson", 111),
            ("SenmlCbor", 112),
            ("SensmlCbor", 113),
            ("SenmlExi", 114),
            ("SensmlExi", 115),
            ("CoapGroupJson", 256),
            ("DotsCbor", 271),
            ("Pkcs7MimeSmimeTypeServerGeneratedKey", 280),
            ("Pkcs7MimeSmimeTypeCertsOnly", 281),
            ("Pkcs7MimeSmimeTypeCmcRequest", 282),
            ("Pkcs7MimeSmimeTypeCmcResponse", 283),
            ("Pkcs8", 284),
            ("Csrattrs", 285),
            ("Pkcs10", 286),
            ("PkixCert", 287),
            ("SenmlXml", 310),
            ("SensmlXml", 311),
            ("SenmlEtchJson", 320),
            ("SenmlEtchCbor", 322),
            ("TdJson", 432),
            ("VndOcfCbor", 10000),
            ("Oscore", 10001),
            ("JsonDeflate", 11050),
            ("CborDeflate", 11060),
            ("VndOmaLwm2mTlv", 11542),
            ("VndOmaLwm2mJson", 11543),
            ("VndOmaLwm2mCbor", 11544),
        ],
        // RFC 8392 section 9.1 and later registrations
        Reg::CwtClaimName => &[
            ("Hcert", -260),
            ("EuphNonce", -259),
            ("EatMaroePrefix", -258),
            ("EatFido", -257),
            ("Reserved", 0),
            ("Iss", 1),
            ("Sub", 2),
            ("Aud", 3),
            ("Exp", 4),
            ("Nbf", 5),
            ("Iat", 6),
            ("Cti", 7),
            ("Cnf", 8),
            ("Scope", 9),
            ("AceProfile", 38),
            ("CNonce", 39),
            ("Exi", 40),
        ],
    }
}

pub fn name_of(r: Reg, i: i64) -> Option<&'static str> {
    table(r).iter().find(|(_, v)| *v == i).map(|(n, _)| *n)
}

pub fn is_registered(r: Reg, i: i64) -> bool {
    name_of(r, i).is_some()
}

/// Internal consistency of the snapshot itself: no integer and no name twice per registry.
pub fn selftest() -> Result<usize, String> {
    let mut n = 0;
    for r in ALL_REGS {
        let t = table(r);
        for (i, a) in t.iter().enumerate() {
            for b in &t[i + 1..] {
                if a.0 == b.0 || a.1 == b.1 {
                    return Err(format!("registry snapshot {:?} has clashing rows {:?} {:?}", r, a, b));
                }
            }
            n += 1;
        }
    }
    Ok(n)
}
