//! Alphabets: small, sharp sets of CBOR items from which the input spaces are built.  One value per
//! shortcut visible in the rules: each rule satisfied, each rule violated alone.

use crate::refcbor::{Item, FALSE, NULL, TRUE, UNDEFINED};

pub fn u(v: u64) -> Item {
    Item::UInt(v)
}
pub fn i(v: i128) -> Item {
    Item::int(v)
}
pub fn b(x: &[u8]) -> Item {
    Item::bytes(x)
}
pub fn t(s: &str) -> Item {
    Item::text(s)
}
pub fn arr(v: Vec<Item>) -> Item {
    Item::Array(v)
}
pub fn map(v: Vec<(Item, Item)>) -> Item {
    Item::Map(v)
}
pub fn bwrap(i: &Item) -> Item {
    Item::Bytes(i.det())
}

pub fn pattern(n: usize) -> Vec<u8> {
    (0..n).map(|k| (k * 7 + 3) as u8).collect()
}

/// One representative of each CBOR kind (opaque value palette `K`).
pub fn kinds() -> Vec<Item> {
    vec![
        u(0),
        u(24),
        i(-1),
        b(b""),
        b(b"\x01\x02"),
        t(""),
        t("x"),
        arr(vec![]),
        arr(vec![u(1), t("a")]),
        map(vec![]),
        map(vec![(u(1), u(2))]),
        Item::tag(1, u(0)),
        FALSE,
        TRUE,
        NULL,
        Item::float(1.5),
        Item::float(f64::NAN),
        Item::float(f64::INFINITY),
        Item::float(-0.0),
        Item::float(1.1),
        u(u64::MAX),
        Item::NInt(u64::MAX),
    ]
}

/// A smaller opaque palette for product spaces.
pub fn kinds_small() -> Vec<Item> {
    vec![u(0), i(-1), b(b"\x01"), t("x"), arr(vec![u(1)]), map(vec![(u(1), u(2))]), NULL, TRUE, Item::float(1.5)]
}

pub fn sig_valid() -> Item {
    arr(vec![b(b""), map(vec![]), b(b"\xaa")])
}
pub fn sig_valid2() -> Item {
    arr(vec![bwrap(&map(vec![(u(1), i(-7))])), map(vec![(u(4), b(b"11"))]), b(b"\xbb\xcc")])
}
pub fn sig_valid3() -> Item {
    arr(vec![bwrap(&map(vec![(u(4), b(b"3"))])), map(vec![]), b(b"\x03")])
}
pub fn sig_valid4() -> Item {
    arr(vec![b(b""), map(vec![(u(1), i(-8))]), b(b"\x04\x04")])
}
/// The same label in the signature's protected and unprotected bucket (not enforced by the crate).
pub fn sig_shared_label() -> Item {
    arr(vec![bwrap(&map(vec![(u(4), b(b"\xaa"))])), map(vec![(u(4), b(b"\xbb"))]), b(b"\xcc")])
}
pub fn sig_bad_protected() -> Item {
    // protected content {4: h''}: empty kid
    arr(vec![bwrap(&map(vec![(u(4), b(b""))])), map(vec![]), b(b"\xaa")])
}
/// Signatures whose protected bstr does not hold exactly one well-formed item.
pub fn sigs_malformed_protected() -> Vec<Item> {
    vec![
        arr(vec![Item::Bytes(vec![0xa1, 0x01]), map(vec![]), b(b"\xaa")]),
        arr(vec![Item::Bytes(vec![0xa1, 0x01, 0x26, 0x00]), map(vec![]), b(b"\xaa")]),
        arr(vec![Item::Bytes(vec![0xff]), map(vec![]), b(b"\xaa")]),
        arr(vec![Item::Bytes(vec![0x1c]), map(vec![]), b(b"\xaa")]),
        arr(vec![Item::Bytes(vec![0xa1, 0x61, 0xff, 0x00]), map(vec![]), b(b"\xaa")]),
    ]
}

pub fn sig_bad_unprotected() -> Item {
    arr(vec![b(b""), map(vec![(u(4), b(b""))]), b(b"\xaa")])
}
pub fn sig_bad_sig() -> Item {
    arr(vec![b(b""), map(vec![]), u(1)])
}

/// (label, value) pairs for header maps (DESIGN 4.8).
pub fn header_pairs() -> Vec<(Item, Item)> {
    let mut p: Vec<(Item, Item)> = Vec::new();
    // 1: alg
    for v in [i(-7), u(0), u(34), i(-65535), i(-65537), i(i64::MIN as i128), u(8), i(-65536), t("x"), t(""), b(b"\x01"), NULL, arr(vec![u(1)]), Item::float(1.0), u(1 << 63)] {
        p.push((u(1), v));
    }
    // 2: crit
    for v in [
        arr(vec![u(1)]),
        arr(vec![u(1), t("a")]),
        arr(vec![u(35), u(4)]),
        arr(vec![]),
        arr(vec![u(8)]),
        arr(vec![i(-70000)]),
        arr(vec![NULL]),
        u(1),
        b(b"\x01"),
        arr(vec![arr(vec![u(1)])]),
        arr(vec![u(1), u(8)]),
        arr(vec![u(8), u(1)]),
        arr(vec![u(8), t("a"), u(11)]),
        arr(vec![u(5), u(6)]),
        arr(vec![t("")]),
        arr(vec![u(1), t(""), t("a")]),
        arr(vec![u(6), u(4), u(5)]),
        arr(vec![u(1), u(2), u(3), u(4), u(5), u(6), u(7), u(9), u(10), u(32), u(33), u(34), u(35), u(256), u(257), t("x")]),
    ] {
        p.push((u(2), v));
    }
    // 3: content type
    for v in [
        u(0),
        u(60),
        u(11544),
        u(1),
        i(-1),
        t("a/b"),
        t("a/b; c=d"),
        t(""),
        t("ab"),
        t("a/b/c"),
        t("/"),
        t(" a/b"),
        t("a/b\t"),
        t("a/b\n"),
        t("a /b"),
        t("\u{0b}a/b"),
        t("a/b\u{0c}"),
        t("a/b\r"),
        t("\u{a0}a/b"),
        t("a/b\u{3000}"),
        t("a/b\u{a0}c=d"),
        t("a/b\u{2028}c"),
        t("a\u{3000}/b"),
        t("a/\u{85}b"),
        t("a/b\u{2003};c=d"),
        t("a/b c"),
        t("a/b;\u{e9}"),
        t("\u{e9}/x"),
        t("\u{65e5}\u{672c}/x"),
        t("\u{65e5}/x"),
        t("\u{e9}\u{e9}/x"),
        t("\u{1f600}/\u{1f600}"),
        t("a/\u{e9}\u{e9}"),
        t("\u{e9}\u{e9}"),
        b(b"a/b"),
    ] {
        p.push((u(3), v));
    }
    // 4, 5, 6: kid, iv, partial iv
    for l in [4u64, 5, 6] {
        for v in [b(b"\x01"), b(b""), u(1), t("a"), NULL] {
            p.push((u(l), v));
        }
        // byte strings are opaque: leading zeros are content
        p.push((u(l), b(b"\x00\x01")));
    }
    p.push((u(6), b(b"\x00\x00")));
    // a textual algorithm is any text
    for v in tricky_texts().into_iter().take(3) {
        p.push((u(1), v));
    }
    // 7: counter signature(s)
    for v in [
        sig_valid(),
        arr(vec![sig_valid()]),
        arr(vec![sig_valid(), sig_valid2()]),
        arr(vec![sig_valid(), sig_valid2(), sig_valid3()]),
        sig_shared_label(),
        arr(vec![arr(vec![sig_valid()])]),
        arr(vec![sig_valid(), arr(vec![sig_valid2()])]),
        arr(vec![sig_valid(), u(1)]),
        arr(vec![sig_valid(), sig_valid2(), sig_valid2()]),
        arr(vec![sig_valid3(), sig_valid(), sig_valid2(), sig_valid4()]),
        arr(vec![]),
        sig_bad_protected(),
        sig_bad_unprotected(),
        sig_bad_sig(),
        arr(vec![b(b""), map(vec![])]),
        arr(vec![b(b""), map(vec![]), b(b""), b(b"")]),
        arr(vec![u(1), u(2), u(3)]),
        arr(vec![sig_valid(), sig_bad_sig()]),
        arr(vec![sig_bad_protected()]),
        sigs_malformed_protected()[0].clone(),
        arr(vec![sig_valid(), sigs_malformed_protected()[1].clone()]),
        sigs_malformed_protected()[2].clone(),
        b(b"\x01"),
    ] {
        p.push((u(7), v));
    }
    // other labels with opaque values
    for (l, v) in [
        (u(0), u(1)),
        (u(8), t("x")),
        (u(9), b(b"\x01")),
        (u(23), NULL),
        (u(24), arr(vec![u(1)])),
        (u(256), map(vec![(u(1), u(2))])),
        (u(65536), TRUE),
        (u(i64::MAX as u64), Item::float(1.5)),
        (i(-1), u(1)),
        (i(-24), u(1)),
        (i(-25), t("y")),
        (i(-65537), u(1)),
        (i(i64::MIN as i128), u(1)),
        (t(""), u(1)),
        (t("a"), u(2)),
        (t("alg"), i(-7)),
        (t("1"), u(1)),
        (t("\u{e9}"), u(1)),
    ] {
        p.push((l, v));
    }
    // keys that are not labels
    for (l, v) in [
        (u(1 << 63), u(1)),
        (Item::NInt(1 << 63), u(1)),
        (b(b"\x01"), u(1)),
        (NULL, u(1)),
        (arr(vec![]), u(1)),
        (Item::float(1.0), u(1)),
        (TRUE, u(1)),
        (Item::tag(1, u(1)), u(1)),
    ] {
        p.push((l, v));
    }
    p
}

/// A reduced header pair alphabet (one valid and the sharpest invalid value per label) for deeper
/// products.
pub fn header_pairs_small() -> Vec<(Item, Item)> {
    vec![
        (u(1), i(-7)),
        (u(1), u(8)),
        (u(2), arr(vec![u(1)])),
        (u(2), arr(vec![])),
        (u(3), t("a/b")),
        (u(3), t("ab")),
        (u(4), b(b"\x01")),
        (u(4), b(b"")),
        (u(5), b(b"\x01")),
        (u(6), b(b"\x01")),
        (u(7), sig_valid()),
        (u(7), arr(vec![sig_valid(), sig_bad_sig()])),
        (u(8), t("x")),
        (i(-1), u(1)),
        (t("a"), u(2)),
        (NULL, u(1)),
    ]
}

/// Reference header *contents* used as protected / unprotected headers inside messages.
pub fn header_contents() -> Vec<Item> {
    vec![
        map(vec![]),
        map(vec![(u(1), i(-7))]),
        map(vec![(u(1), t("alg"))]),
        map(vec![(u(2), arr(vec![u(1), t("x")])), (u(1), u(1))]),
        map(vec![(u(3), u(60))]),
        map(vec![(u(3), t("a/b"))]),
        map(vec![(u(4), b(b"kid"))]),
        map(vec![(u(5), b(b"\x01\x02"))]),
        map(vec![(u(6), b(b"\x03"))]),
        map(vec![(u(7), sig_valid())]),
        map(vec![(u(7), arr(vec![sig_valid(), sig_valid2()]))]),
        map(vec![(u(1), i(-7)), (u(4), b(b"11"))]),
        map(vec![(u(1), i(-7)), (u(2), arr(vec![u(4)])), (u(3), u(0)), (u(4), b(b"k")), (u(5), b(b"iv")), (u(7), sig_valid2()), (u(8), t("x")), (t("z"), NULL)]),
        map(vec![(u(1), u(3)), (u(6), b(b"piv")), (i(-65537), arr(vec![u(1)]))]),
        map(vec![(u(99), u(1)), (t("a"), b(b"\x00")), (i(-1), map(vec![(u(1), u(2))]))]),
        map(vec![(u(300), Item::float(1.5)), (u(8), u(u64::MAX))]),
        // values that are not equal to themselves / have several float widths
        map(vec![(u(99), Item::float(f64::NAN))]),
        map(vec![(u(1), i(-7)), (u(8), arr(vec![Item::float(f64::NAN), Item::float(-0.0), Item::float(1.0)]))]),
    ]
}

/// Invalid header maps (each breaks exactly one rule).
pub fn header_contents_invalid() -> Vec<Item> {
    vec![
        map(vec![(u(4), b(b""))]),
        map(vec![(u(1), u(8))]),
        map(vec![(u(5), b(b"\x01")), (u(6), b(b"\x02"))]),
        map(vec![(u(9), u(1)), (u(9), u(2))]),
        map(vec![(u(7), arr(vec![]))]),
        map(vec![(NULL, u(1))]),
        arr(vec![]),
        u(1),
    ]
}

/// (label, value) pairs for COSE_Key maps (DESIGN 4.10).
pub fn key_pairs() -> Vec<(Item, Item)> {
    let mut p: Vec<(Item, Item)> = Vec::new();
    for v in [u(1), u(2), u(6), u(0), u(7), i(-1), t("EC"), t(""), b(b"\x01"), NULL, u(1 << 63)] {
        p.push((u(1), v));
    }
    for l in [2u64, 5] {
        for v in [b(b"\x01"), b(b""), u(1), NULL] {
            p.push((u(l), v));
        }
    }
    for v in [i(-7), u(0), i(-65537), u(8), i(-65536), t("x"), b(b"\x01"), NULL] {
        p.push((u(3), v));
    }
    for v in [
        arr(vec![u(1)]),
        arr(vec![u(1), u(2)]),
        arr(vec![u(2), u(1)]),
        arr(vec![u(10), t("x")]),
        arr(vec![u(1), u(1)]),
        arr(vec![t("x"), t("x")]),
        arr(vec![]),
        arr(vec![u(11)]),
        arr(vec![u(0)]),
        u(1),
        arr(vec![NULL]),
        arr(vec![t("x"), t("y"), u(3)]),
        arr(vec![t("")]),
        arr(vec![u(1), t("")]),
        arr(vec![u(1), u(2), u(1)]),
        arr((1..=10u64).map(u).chain(std::iter::once(t("audit"))).collect()),
        arr((0..12).map(|k| t(&format!("op{}", k))).collect()),
        arr((1..=10u64).rev().map(u).chain([t("b"), t("a"), t("b")]).collect()),
        arr(vec![u(1), u(11)]),
        arr(vec![u(1), NULL]),
        arr(vec![t("a"), u(1), t("a")]),
        arr(vec![u(2), u(1), u(3), u(2)]),
        // the fault anywhere but last
        arr(vec![u(11), u(3)]),
        arr(vec![u(3), u(0), t("k")]),
        arr(vec![NULL, u(1)]),
    ] {
        p.push((u(4), v));
    }
    for (l, v) in [
        (i(-1), u(1)),
        (i(-2), b(b"\x01\x02")),
        (i(-3), TRUE),
        (i(-4), b(b"\x03")),
        (i(-65537), u(1)),
        (u(0), u(1)),
        (u(6), NULL),
        (u(100), arr(vec![u(1)])),
        (t("a"), u(1)),
        (u(i64::MAX as u64), u(1)),
        (i(i64::MIN as i128), t("m")),
        (u(1 << 63), u(1)),
        (Item::NInt(1 << 63), u(1)),
        (b(b"\x01"), u(1)),
        (NULL, u(1)),
        (Item::float(1.0), u(1)),
    ] {
        p.push((l, v));
    }
    p
}

pub fn keys_valid() -> Vec<Item> {
    vec![
        map(vec![(u(1), u(1))]),
        map(vec![(u(1), u(2)), (i(-1), u(1)), (i(-2), b(b"x")), (i(-3), b(b"y"))]),
        map(vec![(u(2), b(b"kid")), (u(1), t("kt")), (u(3), i(-7)), (u(4), arr(vec![u(2), u(1)])), (u(5), b(b"iv")), (u(0), u(1))]),
    ]
}
pub fn keys_invalid() -> Vec<Item> {
    vec![map(vec![]), map(vec![(u(1), u(0))]), map(vec![(u(1), u(1)), (u(2), b(b""))]), arr(vec![]), u(1)]
}

/// (key, value) pairs for CWT claims sets (DESIGN 4.18).
/// Texts a well-meaning syntax check (URI scheme, date, host:port, media type) would trip over.
pub fn tricky_texts() -> Vec<Item> {
    vec![t("a:b"), t(":x"), t("12:30"), t("\u{fc}ber:cool"), t("urn:example:\u{fc}"), t("[2001:db8::1]:5684"), t("a b"), t("\u{0}")]
}

pub fn claims_pairs() -> Vec<(Item, Item)> {
    let mut p: Vec<(Item, Item)> = Vec::new();
    for l in [1u64, 2, 3] {
        for v in [t("x"), t(""), b(b"x"), u(1), NULL] {
            p.push((u(l), v));
        }
        // free text: any content is text
        for v in tricky_texts().into_iter().take(if l == 1 { 8 } else { 4 }) {
            p.push((u(l), v));
        }
    }
    for l in [4u64, 5, 6] {
        for v in [
            u(0),
            u(1_700_000_000),
            i(-1),
            u(i64::MAX as u64),
            u(1 << 63),
            i(i64::MIN as i128),
            Item::NInt(1 << 63),
            Item::float(1.5),
            Item::float(2.0),
            Item::float(f64::INFINITY),
            Item::float(f64::NAN),
            Item::float(-0.0),
            Item::float(5e-324),
            Item::float(f64::MIN_POSITIVE),
            Item::float(f64::NEG_INFINITY),
            t("1"),
            NULL,
            b(b"\x01"),
        ] {
            p.push((u(l), v));
        }
    }
    for v in [b(b"\x01"), b(b""), t("x"), u(1), NULL] {
        p.push((u(7), v));
    }
    for (l, v) in [
        (u(0), u(1)),
        (u(8), map(vec![(u(1), u(2))])),
        (u(9), t("scope")),
        (u(38), u(1)),
        (u(39), b(b"n")),
        (u(40), u(3600)),
        (i(-257), arr(vec![])),
        (i(-260), map(vec![])),
        (i(-65537), u(1)),
        (i(i64::MIN as i128), u(1)),
        (u(10), u(1)),
        (u(37), u(1)),
        (i(-1), u(1)),
        (i(-256), u(1)),
        (i(-261), u(1)),
        (i(-65536), u(1)),
        (t("a"), u(1)),
        (t(""), u(1)),
        (u(1 << 63), u(1)),
        (b(b"\x01"), u(1)),
        (NULL, u(1)),
    ] {
        p.push((l, v));
    }
    p
}

/// Slot alphabet for message arrays (DESIGN 4.9).
pub fn msg_slots() -> Vec<Item> {
    let rec = |prot: Item, unp: Item, ct: Item, inner: Option<Vec<Item>>| {
        let mut a = vec![prot, unp, ct];
        if let Some(x) = inner {
            a.push(arr(x));
        }
        arr(a)
    };
    let r_valid = rec(b(b""), map(vec![]), b(b"ct"), None);
    let r_valid_nil = rec(bwrap(&map(vec![(u(1), i(-6))])), map(vec![(u(4), b(b"r"))]), NULL, None);
    let r_bad = rec(b(b""), map(vec![]), u(1), None);
    let r_nest2 = rec(b(b""), map(vec![]), NULL, Some(vec![r_valid.clone()]));
    let r_nest3 = rec(b(b""), map(vec![]), NULL, Some(vec![r_nest2.clone()]));
    // two different recipients below a recipient: their order is part of the value
    let r_nest_two = rec(b(b""), map(vec![]), NULL, Some(vec![r_valid.clone(), r_valid_nil.clone(), r_nest2.clone()]));
    let r_nest2_bad = rec(b(b""), map(vec![]), NULL, Some(vec![r_bad.clone()]));
    let r_nest3_bad = rec(b(b""), map(vec![]), NULL, Some(vec![r_nest2_bad.clone()]));
    vec![
        // bstr slots
        b(b""),
        bwrap(&map(vec![])),
        bwrap(&map(vec![(u(1), i(-7)), (u(4), b(b"11"))])),
        bwrap(&map(vec![(u(4), b(b""))])),
        Item::Bytes([map(vec![(u(1), i(-7))]).det(), vec![0x00]].concat()),
        Item::Bytes(vec![0xa1, 0x01]),
        bwrap(&u(1)),
        b(b"payload"),
        // map slots
        map(vec![]),
        map(vec![(u(4), b(b"kid")), (u(99), t("x"))]),
        map(vec![(u(4), b(b""))]),
        // simple / scalars
        NULL,
        UNDEFINED,
        FALSE,
        u(0),
        t("a"),
        Item::float(1.0),
        // arrays
        arr(vec![]),
        arr(vec![sig_valid()]),
        arr(vec![sig_valid(), sig_valid2()]),
        arr(vec![sig_bad_sig()]),
        arr(vec![sig_valid(), sig_bad_protected()]),
        arr(vec![r_valid.clone()]),
        arr(vec![r_valid_nil.clone(), r_nest2.clone()]),
        arr(vec![r_nest3.clone()]),
        arr(vec![r_nest_two.clone()]),
        // four pairwise different elements in no particular order (an index or ordering slip that
        // alternating elements would hide)
        arr(vec![sig_valid3(), sig_valid(), sig_valid4(), sig_valid2()]),
        // relations between neighbours: equal elements after a different one, an element whose
        // protected bytes extend the previous one's, an empty entry after a good one
        arr(vec![sig_valid(), sig_valid2(), sig_valid2()]),
        // neighbours whose protected headers parse alike from different bytes
        arr(vec![sig_valid(), arr(vec![Item::Bytes(vec![0xa0]), map(vec![]), b(b"\x01")]), sig_valid2(), arr(vec![Item::Bytes(vec![0xa1, 0x01, 0x38, 0x06]), map(vec![(u(4), b(b"11"))]), b(b"\x02")])]),
        arr(vec![sig_valid2(), sigs_malformed_protected()[1].clone()]),
        arr(vec![sig_valid(), arr(vec![])]),
        arr(vec![r_valid_nil.clone(), r_nest2.clone(), r_valid_nil.clone()]),
        arr(vec![r_valid_nil.clone(), r_nest2.clone(), r_valid.clone(), rec(bwrap(&map(vec![(u(4), b(b"r4"))])), map(vec![(u(1), i(-3))]), b(b"c4"), None)]),
        arr(vec![r_bad.clone()]),
        arr(vec![r_nest2_bad.clone()]),
        arr(vec![r_nest3_bad.clone()]),
        // two elements whose header maps use the same labels (state must not leak between elements)
        arr(vec![sig_valid2(), sig_valid2()]),
        arr(vec![r_valid_nil.clone(), r_valid_nil.clone()]),
        // nested elements whose protected bstr is malformed / truncated / has trailing bytes
        arr(vec![sigs_malformed_protected()[0].clone()]),
        arr(vec![sig_valid(), sigs_malformed_protected()[1].clone()]),
        arr(vec![sigs_malformed_protected()[2].clone()]),
        arr(vec![sigs_malformed_protected()[4].clone()]),
        // IV in a protected bstr, Partial IV in an unprotected map (different buckets: allowed)
        bwrap(&map(vec![(u(5), b(b"iv"))])),
        map(vec![(u(6), b(b"piv"))]),
        bwrap(&map(vec![(u(6), b(b"piv"))])),
        map(vec![(u(5), b(b"iv"))]),
        // the fault in the second element of a list
        arr(vec![r_valid.clone(), r_bad.clone()]),
        arr(vec![r_valid.clone(), r_nest2_bad.clone()]),
        Item::tag(18, arr(vec![])),
        // a bare COSE_Signature / COSE_recipient where an array of them belongs
        sig_valid(),
        // an empty map followed by something inside the protected bstr
        Item::Bytes(vec![0xa0, 0x00]),
        Item::Bytes(vec![0xa0, 0xa1, 0x01, 0x26]),
        // protected header written as an indefinite-length map
        Item::Bytes(vec![0xbf, 0x01, 0x26, 0xff]),
    ]
}

/// Reduced slot alphabet (quick tier for arity 5, and off-arity arrays).
pub fn msg_slots_small() -> Vec<Item> {
    let r_valid = arr(vec![b(b""), map(vec![]), b(b"ct")]);
    let r_bad = arr(vec![b(b""), map(vec![]), u(1)]);
    vec![
        b(b""),
        bwrap(&map(vec![(u(1), i(-7))])),
        bwrap(&map(vec![(u(4), b(b""))])),
        map(vec![]),
        map(vec![(u(4), b(b""))]),
        NULL,
        UNDEFINED,
        u(0),
        arr(vec![]),
        arr(vec![sig_valid()]),
        arr(vec![r_valid]),
        arr(vec![r_bad]),
        sig_valid(),
    ]
}

pub fn msg_slots_tiny() -> Vec<Item> {
    vec![b(b""), map(vec![]), NULL, b(b"x"), arr(vec![sig_valid()]), arr(vec![sig_valid(), arr(vec![])]), arr(vec![arr(vec![b(b""), map(vec![]), b(b"ct")])])]
}

/// Non-array items offered to every structure type.
pub fn non_arrays() -> Vec<Item> {
    kinds().into_iter().filter(|k| !k.is_array()).collect()
}

/// Byte-string length classes of the design (section 3).
pub fn bstr_lengths(thorough: bool) -> Vec<usize> {
    let mut v = vec![0, 1, 23, 24, 255, 256, 65535, 65536];
    if thorough {
        v.push(1 << 20);
    }
    v
}

/// Integer boundary lattice: +-(2^e + d), e in 0..=64, d in -2..=2, clipped to [-2^64, 2^64-1].
pub fn int_lattice() -> Vec<i128> {
    let mut s = std::collections::BTreeSet::new();
    let lo = -(1i128 << 64);
    let hi = (1i128 << 64) - 1;
    for e in 0..=64u32 {
        for d in -2i128..=2 {
            for sign in [1i128, -1] {
                let v = sign * ((1i128 << e) + d);
                if v >= lo && v <= hi {
                    s.insert(v);
                }
            }
        }
    }
    for v in [0i128, 23, 24, -24, -25, 255, 256, -256, -257, 65535, 65536, -65536, -65537] {
        s.insert(v);
    }
    s.into_iter().collect()
}

/// Labels across every encoding-length boundary (C12, C16).
pub fn label_ints(thorough: bool) -> Vec<i64> {
    let mut s = std::collections::BTreeSet::new();
    let exps: &[u32] = if thorough { &[0, 1, 2, 3, 4, 5, 8, 16, 31, 32, 62, 63] } else { &[0, 3, 5, 8, 16, 32, 63] };
    for e in exps {
        for d in -1i128..=1 {
            for v in [(1i128 << e) + d, -((1i128 << e) + d)] {
                if let Ok(x) = i64::try_from(v) {
                    s.insert(x);
                }
            }
        }
    }
    for v in [0i64, 1, 2, 3, 4, 5, 6, 7, 8, 9, 10, 23, 24, 25, -1, -2, -3, -4, -24, -25, -26, 255, 256, -256, -257, 65535, 65536, -65536, -65537, i64::MAX, i64::MIN] {
        s.insert(v);
    }
    s.into_iter().collect()
}

pub fn label_texts(thorough: bool) -> Vec<String> {
    let mut v: Vec<String> = vec!["".into(), "a".into(), "b".into(), "aa".into(), "ab".into(), "1".into(), "alg".into(), "\u{e9}".into(), "\u{20ac}".into(), "\u{1f600}".into(), "a\u{e9}".into(), "z".into()];
    // text lengths whose encodings are as long as, or one off, each integer encoding (1, 2, 3, 5, 9 bytes)
    for n in [3usize, 4, 7, 8] {
        v.push("c".repeat(n));
    }
    let lens: &[usize] = if thorough { &[22, 23, 24, 25, 255, 256, 257, 65535, 65536] } else { &[23, 24, 255, 256, 65536] };
    for n in lens {
        v.push("a".repeat(*n));
        v.push(format!("{}b", "a".repeat(*n - 1)));
    }
    if thorough {
        v.push("\u{e9}".repeat(12));
        v.push("\u{20ac}".repeat(8));
        v.push("Z".into());
        v.push("aaa".into());
    }
    v
}
