//! C12 — no map handled by the crate ever carries the same label twice (decode side here; the
//! encode side lives in c11.rs::dup_encode).

use super::{header_carriers, Ex, Scale};
use crate::gen::{self, b, i, map, t, u};
use crate::mc::{par_partitions, Report, Viol};
use crate::subject::{self, Outcome};
use crate::oracle::{Checks, Entry};
use crate::refcbor::{encodings, hex, DevOpts, Enc, Item};
use crate::refcose::Ty;
use serde_json::json;

pub const CHECKS: Checks = Checks { iff: true, kind_dup: true, ..Checks::NONE };

pub fn run(rep: &Report) -> u64 {
    rep.set_rule("C12 decode: for every label (integers across all head-width boundaries, typed labels, texts) x every pair of encodings of that label (each head width, chunked text) x map sizes 2..4 with the two occurrences at every pair of positions among bystanders x every carrier (header at 29 positions, key, key in key set, claims set): must be rejected, and with the duplicate-key error when the duplicate is the only fault. C12 encode: every in-memory header/key/claims set with two equal extra labels at every pair of positions, or an extra label equal to a populated typed field: encoding must fail or emit pairwise distinct keys. non-trivial = single-fault duplicate cases; distinct by bytes");
    rep.assume("label equality is CBOR data-model equality of the key items (integers by value, text by content)");
    explore(&Ex::own(rep, CHECKS));
    super::c11::dup_encode(&Ex::own(rep, CHECKS));
    1000
}

/// A value that is valid for `label` in the given map kind.
fn valid_value(kind: Ty, label: &Item) -> Item {
    match (kind, label.as_int()) {
        (Ty::Header, Some(1)) => i(-7),
        (Ty::Header, Some(2)) => gen::arr(vec![u(1)]),
        (Ty::Header, Some(3)) => u(0),
        (Ty::Header, Some(4..=6)) => b(b"\x01"),
        (Ty::Header, Some(7)) => gen::sig_valid(),
        (Ty::Key, Some(1)) => u(1),
        (Ty::Key, Some(2 | 5)) => b(b"\x01"),
        (Ty::Key, Some(3)) => i(-7),
        (Ty::Key, Some(4)) => gen::arr(vec![u(1)]),
        (Ty::Claims, Some(1..=3)) => t("x"),
        (Ty::Claims, Some(4..=6)) => u(1),
        (Ty::Claims, Some(7)) => b(b"\x01"),
        _ => u(1),
    }
}

fn label_encodings(label: &Item) -> Vec<Enc> {
    // every head width (and every chunking of a text) of the label itself
    encodings(label, 1, &DevOpts::NO_BIGNUM).into_iter().map(|(_, e)| e).collect()
}

pub fn explore(ex: &Ex) {
    // a repeated label however deep the header map sits: every word over the four header <->
    // counter-signature edges pumped to depth 1..40 around a map with a repeated label, through
    // every carrier - must be rejected (whatever nesting limit the decoder has, and at that limit)
    {
        let mut names = crate::spaces::c01::family_names(false);
        names.retain(|n| n.starts_with("depth:"));
        let nmax = ex.pick(20usize, 40, 64);
        ex.bound("c12.deep", "n_max", json!(nmax));
        par_partitions(ex.rep, names, |name, l| {
            for core in [&[0xa2u8, 0x18, 0x63, 0x00, 0x18, 0x63, 0x01][..], &[0xa3, 0x04, 0x41, 0x01, 0x01, 0x26, 0x04, 0x41, 0x02], &[0xbf, 0x61, 0x61, 0x00, 0x61, 0x61, 0x00, 0xff]] {
                for n in 1..=nmax {
                    if let Some((eps, bytes)) = crate::spaces::c01::family_around(name, n, core) {
                        for (ty, entry) in eps {
                            let case = format!("{} {} {}", crate::oracle::ty_name(ty), entry.name(), hex(&bytes));
                            if let Ok(only) = std::env::var("VERIF_ONLY_CASE") {
                                if only != case {
                                    continue;
                                }
                            }
                            l.state(n as u64);
                            l.evaluations += 1;
                            l.impl_checked += 1;
                            l.nontrivial(&bytes);
                            let out = match entry {
                                Entry::Slice => subject::decode(ty, &bytes),
                                Entry::Tagged => subject::decode_tagged(ty, &bytes),
                                Entry::Bstr => match subject::parse_value(&bytes) {
                                    Outcome::Ok((v, _)) => subject::decode_protected_bstr(v),
                                    _ => continue,
                                },
                            };
                            if !out.is_err() {
                                l.viol(Viol {
                                    key: format!("C12:accepted-duplicate-at-depth:{}", crate::oracle::ty_name(ty)),
                                    space: "c12.deep".into(),
                                    case,
                                    direct: None,
                                    expected: format!("Err (a header map {} levels down repeats a label)", n),
                                    observed: out.brief(),
                                });
                            }
                        }
                    }
                }
            }
        });
    }
    let thorough = ex.scale == Scale::Thorough;
    let mut labels: Vec<Item> = gen::label_ints(thorough).into_iter().map(|v| i(v as i128)).collect();
    labels.extend(gen::label_texts(false).into_iter().filter(|s| s.len() < 300).map(|s| t(&s)));
    if ex.scale == Scale::Small {
        labels.truncate(30);
    }
    ex.bound("c12.decode", "labels", json!(labels.len()));
    let max_size = ex.pick(3usize, 3, 4);
    ex.bound("c12.decode", "map_size_max", json!(max_size));
    // bystanders per map kind (valid, distinct from most labels; a clash only adds a second duplicate)
    // (in headers the first bystander is a counter signature: decoding it re-enters the header
    // decoder between the two occurrences)
    let by_header = vec![(u(7), gen::arr(vec![gen::sig_valid2(), gen::sig_valid()])), (u(4), b(b"k"))];
    let by_key = vec![(u(2), b(b"k")), (u(1000), u(0))];
    let by_claims = vec![(u(7), b(b"c")), (i(-70000), u(0))];
    par_partitions(ex.rep, labels, |label, l| {
        let encs = label_encodings(label);
        for kind in [Ty::Header, Ty::Key, Ty::Claims] {
            let by = match kind {
                Ty::Header => &by_header,
                Ty::Key => &by_key,
                _ => &by_claims,
            };
            let v1 = Enc::canonical(&valid_value(kind, label));
            let v2 = v1.clone();
            for e1 in &encs {
                for e2 in &encs {
                    for size in 2..=max_size {
                        for p1 in 0..size {
                            for p2 in (p1 + 1)..size {
                                // entries: the two occurrences at p1 < p2, bystanders elsewhere
                                let mut entries: Vec<(Enc, Enc)> = Vec::new();
                                let mut bi = 0;
                                for pos in 0..size {
                                    if pos == p1 {
                                        entries.push((e1.clone(), v1.clone()));
                                    } else if pos == p2 {
                                        entries.push((e2.clone(), v2.clone()));
                                    } else {
                                        let (k, v) = &by[bi % by.len()];
                                        bi += 1;
                                        entries.push((Enc::canonical(k), Enc::canonical(v)));
                                    }
                                }
                                // a COSE_Key needs its key type to be a single-fault case
                                if kind == Ty::Key && label.as_int() != Some(1) {
                                    entries.insert(0, (Enc::canonical(&u(1)), Enc::canonical(&u(1))));
                                }
                                let n = entries.len() as u64;
                                let m = Enc::Map(entries, crate::refcbor::min_w(n)).to_bytes();
                                l.state(size as u64);
                                l.count(&format!("c12.decode.{:?}", kind));
                                if size == 3 && p1 == 0 && p2 == 2 {
                                    l.sample(|| json!({"space": "c12.decode", "kind": format!("{:?}", kind), "label": format!("{:?}", label), "hex": hex(&m)}));
                                }
                                match kind {
                                    Ty::Header => {
                                        let all = size == 2 && (e1.is_deterministic() || e2.is_deterministic());
                                        for (_n, ty, bytes) in header_carriers(&m, all || thorough) {
                                            ex.decode(l, "c12.decode", ty, Entry::Slice, &bytes);
                                        }
                                    }
                                    Ty::Key => {
                                        ex.decode(l, "c12.decode", Ty::Key, Entry::Slice, &m);
                                        let ks = [&[0x82u8][..], &map(vec![(u(1), u(1))]).det(), &m].concat();
                                        ex.decode(l, "c12.decode", Ty::KeySet, Entry::Slice, &ks);
                                    }
                                    _ => ex.decode(l, "c12.decode", Ty::Claims, Entry::Slice, &m),
                                }
                            }
                        }
                    }
                }
            }
        }
    });
    // the two occurrences of a typed label with every pair of values from {valid, another valid,
    // the field's default / empty / reserved value}: detection must not depend on the values
    let typed: Vec<(Ty, u64, Vec<Item>)> = vec![
        (Ty::Header, 1, vec![i(-7), u(1), u(0), t("")]),
        (Ty::Header, 2, vec![gen::arr(vec![u(1)]), gen::arr(vec![u(4), u(1)]), gen::arr(vec![])]),
        (Ty::Header, 3, vec![u(0), t("a/b"), t("")]),
        (Ty::Header, 4, vec![b(b"a"), b(b"b"), b(b"")]),
        (Ty::Header, 5, vec![b(b"a"), b(b"b"), b(b"")]),
        (Ty::Header, 6, vec![b(b"a"), b(b"b"), b(b"")]),
        (Ty::Header, 7, vec![gen::sig_valid(), gen::arr(vec![gen::sig_valid(), gen::sig_valid2()]), gen::arr(vec![])]),
        (Ty::Key, 1, vec![u(1), u(2), u(0), t("")]),
        (Ty::Key, 2, vec![b(b"a"), b(b"b"), b(b"")]),
        (Ty::Key, 3, vec![i(-7), u(1), u(0)]),
        (Ty::Key, 4, vec![gen::arr(vec![u(1)]), gen::arr(vec![u(2), u(1)]), gen::arr(vec![])]),
        (Ty::Key, 5, vec![b(b"a"), b(b"b"), b(b"")]),
        (Ty::Claims, 1, vec![t("a"), t("b"), t("")]),
        (Ty::Claims, 4, vec![u(1), u(0), Item::float(0.0)]),
        (Ty::Claims, 7, vec![b(b"a"), b(b"b"), b(b"")]),
        (Ty::Claims, 8, vec![u(1), u(0), crate::refcbor::NULL]),
        (Ty::Header, 9, vec![u(1), u(0), crate::refcbor::NULL]),
        (Ty::Key, 6, vec![u(1), u(0), crate::refcbor::NULL]),
    ];
    par_partitions(ex.rep, typed, |(kind, label, vals), l| {
        for v1 in vals {
            for v2 in vals {
                for third in [None, Some(0usize), Some(1), Some(2)] {
                    let mut entries = vec![(u(*label), v1.clone()), (u(*label), v2.clone())];
                    if let Some(pos) = third {
                        entries.insert(pos, (u(1000), u(0)));
                    }
                    if *kind == Ty::Key && *label != 1 {
                        entries.insert(0, (u(1), u(1)));
                    }
                    if *kind == Ty::Claims {
                        for e in entries.iter_mut() {
                            if e.0 == u(1000) {
                                e.0 = i(-70000);
                            }
                        }
                    }
                    let m = Item::Map(entries).det();
                    l.state(2);
                    l.count("c12.decode.value_pairs");
                    match kind {
                        Ty::Header => {
                            for (_n, ty, bytes) in header_carriers(&m, third.is_none()) {
                                ex.decode(l, "c12.decode.values", ty, Entry::Slice, &bytes);
                            }
                        }
                        Ty::Key => {
                            ex.decode(l, "c12.decode.values", Ty::Key, Entry::Slice, &m);
                            let ks = [&[0x81u8][..], &m].concat();
                            ex.decode(l, "c12.decode.values", Ty::KeySet, Entry::Slice, &ks);
                        }
                        _ => ex.decode(l, "c12.decode.values", Ty::Claims, Entry::Slice, &m),
                    }
                }
            }
        }
    });
    // wide maps: n distinct labels plus a repeat of the label at position i placed at position j
    let sizes: Vec<usize> = match ex.scale {
        Scale::Small => vec![17],
        Scale::Quick => vec![9, 17, 18, 33, 65],
        Scale::Thorough => vec![8, 9, 16, 17, 18, 32, 33, 34, 64, 65, 129],
    };
    ex.bound("c12.decode.wide", "map_sizes", json!(sizes));
    let mut wide: Vec<(Ty, usize)> = Vec::new();
    for k in [Ty::Header, Ty::Key, Ty::Claims] {
        for n in &sizes {
            wide.push((k, *n));
        }
    }
    par_partitions(ex.rep, wide, |(kind, n), l| {
        // distinct labels valid for the map kind (extras only, so every map is otherwise valid)
        let labels: Vec<Item> = (0..*n)
            .map(|k| match kind {
                Ty::Claims => {
                    if k % 3 == 0 {
                        t(&format!("c{}", k))
                    } else {
                        i(-70000 - k as i128)
                    }
                }
                _ => {
                    if k % 3 == 0 {
                        t(&format!("x{}", k))
                    } else if k % 3 == 1 {
                        u(100 + k as u64)
                    } else {
                        i(-100 - k as i128)
                    }
                }
            })
            .collect();
        for a in 0..*n {
            for bpos in (a + 1)..=*n {
                // repeat labels[a] at position bpos (after insertion the map has n+1 entries)
                let mut entries: Vec<(Item, Item)> = labels.iter().map(|x| (x.clone(), u(0))).collect();
                entries.insert(bpos, (labels[a].clone(), u(1)));
                if *kind == Ty::Key {
                    entries.insert(0, (u(1), u(1)));
                }
                let m = Item::Map(entries).det();
                l.state(*n as u64);
                l.count("c12.decode.wide");
                ex.decode(l, "c12.decode.wide", *kind, Entry::Slice, &m);
                if *kind == Ty::Header && (a == 0 || bpos == *n) {
                    ex.decode(l, "c12.decode.wide", Ty::Protected, Entry::Bstr, &crate::spaces::wrap_bstr(&m));
                }
            }
        }
        // control: the same map without the repeat is accepted
        let mut entries: Vec<(Item, Item)> = labels.iter().map(|x| (x.clone(), u(0))).collect();
        if *kind == Ty::Key {
            entries.insert(0, (u(1), u(1)));
        }
        ex.decode(l, "c12.decode.wide", *kind, Entry::Slice, &Item::Map(entries).det());
    });
    // duplicates with differing values, and with a second independent fault (only rejection required)
    let extra: Vec<(Ty, Item)> = vec![
        (Ty::Header, map(vec![(u(9), u(1)), (u(9), u(2))])),
        (Ty::Header, map(vec![(u(4), b(b"a")), (u(4), b(b""))])),
        (Ty::Header, map(vec![(u(4), b(b"")), (u(4), b(b"a"))])),
        (Ty::Header, map(vec![(u(5), b(b"a")), (u(6), b(b"b")), (u(5), b(b"c"))])),
        (Ty::Header, map(vec![(t("a"), u(1)), (u(1), i(-7)), (t("a"), u(1))])),
        (Ty::Key, map(vec![(u(1), u(1)), (u(1), u(2))])),
        (Ty::Key, map(vec![(i(-1), u(1)), (u(1), u(1)), (i(-1), u(1))])),
        (Ty::Claims, map(vec![(u(1), t("a")), (u(1), t("b"))])),
        (Ty::Claims, map(vec![(u(8), u(1)), (u(4), u(2)), (u(8), u(1))])),
    ];
    par_partitions(ex.rep, extra, |(ty, it), l| {
        for (lvl, e) in encodings(it, 2, &DevOpts::NO_ORDER) {
            l.state(lvl as u64);
            ex.decode(l, "c12.decode.extra", *ty, Entry::Slice, &e.to_bytes());
        }
    });
}
