//! C20 — canonicalising a key sorts its encoding and changes nothing else.

use super::{Ex, Scale};
use crate::gen::{b, u};
use crate::mc::{par_partitions, Local, Report, Viol};
use crate::refcbor::{hex, read_exact, Item, NULL};
use crate::refcose::{RKey, RLabel};
use crate::spaces::c11::{l_int, l_text, sort_ops};
use crate::subject::{self, catch};
use coset::{CborOrdering, CborSerializable};
use serde_json::json;

pub fn run(rep: &Report) -> u64 {
    rep.set_rule("C20: keys = kty in {OKP, text} x every subset of {kid, alg, key_ops, base_iv} x every ordered selection of 0..3 (quick) / 0..4 (thorough) extra labels from a 16-label palette (0, 6, 23, 24, 255, 256, 65536, -1, -24, -25, -257, \"a\", \"aa\", \"b\", \"e-acute\", \"zz\"), in-memory and re-obtained by decoding, x both orderings; after canonicalize: emitted keys strictly ascending under the ordering (on independently read encodings), same set of (label, value) pairs, second canonicalize is a no-op, decode/re-encode reproduces the bytes; non-trivial = keys with >= 2 extras; distinct by (key, ordering)");
    rep.assume("ordering of encoded keys: bytewise lexicographic (RFC 8949 4.2.1) or length-first (RFC 7049 3.9) on refcbor's deterministic encodings");
    explore(&Ex::own(rep, crate::oracle::Checks::NONE));
    1000
}

pub fn extra_palette() -> Vec<RLabel> {
    vec![l_int(0), l_int(6), l_int(23), l_int(24), l_int(255), l_int(256), l_int(65536), l_int(-1), l_int(-24), l_int(-25), l_int(-257), l_text("a"), l_text("aa"), l_text("b"), l_text("\u{e9}"), l_text("zz")]
}

fn viol(what: &str, case: &str, expected: String, observed: String) -> Viol {
    Viol { key: format!("C20:{}", what), space: "c20".into(), case: case.to_string(), direct: None, expected, observed }
}

fn keys_of(bytes: &[u8]) -> Result<Vec<(Item, Item)>, String> {
    match read_exact(bytes)?.item() {
        Item::Map(m) => Ok(m),
        x => Err(format!("not a map: {:?}", x)),
    }
}

pub fn check_key(rk: &RKey, lexicographic: bool, via_decode: bool, l: &mut Local) {
    let case = format!("{:?} {} {}", rk, if lexicographic { "Lexicographic" } else { "LengthFirstLexicographic" }, if via_decode { "decoded" } else { "in-memory" });
    if let Ok(only) = std::env::var("VERIF_ONLY_CASE") {
        if only != case {
            return;
        }
    }
    l.state(1);
    l.evaluations += 1;
    let has0 = rk.params.iter().any(|(l, _)| *l == RLabel::Int(0));
    let suffix = if has0 { ":extra-label-0" } else { "" };
    let mut key = match subject::c_key(rk) {
        Ok(k) => k,
        Err(e) => {
            l.viol(viol("cannot-construct", &case, "constructible".into(), e));
            return;
        }
    };
    l.impl_checked += 1;
    if rk.params.len() >= 2 {
        l.nontrivial(&case);
    }
    let before = match catch(|| key.clone().to_vec()) {
        Ok(Ok(b)) => b,
        o => {
            l.viol(viol("encode-failed", &case, "Ok".into(), format!("{:?}", o.map(|r| r.map_err(|e| format!("{:?}", e))))));
            return;
        }
    };
    if via_decode {
        key = match catch(|| coset::CoseKey::from_slice(&before)) {
            Ok(Ok(k)) => k,
            o => {
                l.viol(viol("decode-failed", &case, "Ok".into(), format!("{:?}", o.map(|r| r.map(|_| ()).map_err(|e| format!("{:?}", e))))));
                return;
            }
        };
    }
    let ord = || if lexicographic { CborOrdering::Lexicographic } else { CborOrdering::LengthFirstLexicographic };
    if let Err(p) = catch(|| key.canonicalize(ord())) {
        l.viol(viol("panic", &case, "no panic".into(), p));
        return;
    }
    let after = match catch(|| key.clone().to_vec()) {
        Ok(Ok(b)) => b,
        _ => {
            l.viol(viol("encode-failed-after", &case, "Ok".into(), "Err/panic".into()));
            return;
        }
    };
    let (mb, ma) = match (keys_of(&before), keys_of(&after)) {
        (Ok(x), Ok(y)) => (x, y),
        (x, y) => {
            l.viol(viol("output-not-a-map", &case, "maps".into(), format!("{:?} {:?}", x.err(), y.err())));
            return;
        }
    };
    // strictly ascending under the ordering
    let encs: Vec<Vec<u8>> = ma.iter().map(|(k, _)| k.det()).collect();
    let ascending = encs.windows(2).all(|w| if lexicographic { w[0] < w[1] } else { (w[0].len(), &w[0]) < (w[1].len(), &w[1]) });
    if !ascending {
        l.viol(viol(&format!("not-ascending{}", suffix), &case, "emitted keys strictly ascending".into(), format!("{} keys {:?}", hex(&after), ma.iter().map(|(k, _)| k.clone()).collect::<Vec<_>>())));
    }
    // same pair set
    let norm = |m: &Vec<(Item, Item)>| {
        let mut v: Vec<(Vec<u8>, Vec<u8>)> = m.iter().map(|(k, x)| (k.det(), x.det())).collect();
        v.sort();
        v
    };
    if norm(&mb) != norm(&ma) {
        l.viol(viol("pairs-changed", &case, format!("{:?}", mb), format!("{:?}", ma)));
    }
    // idempotent
    let mut again = key.clone();
    let _ = catch(|| again.canonicalize(ord()));
    if format!("{:?}", again) != format!("{:?}", key) {
        l.viol(viol("not-idempotent", &case, format!("{:?}", key), format!("{:?}", again)));
    }
    // a canonicalised key decodes and re-encodes to the same bytes, and decodes to the same key
    match catch(|| coset::CoseKey::from_slice(&after).and_then(|k| Ok((format!("{:?}", k), k.to_vec()?)))) {
        Ok(Ok((dbg, again_bytes))) => {
            if again_bytes != after {
                l.viol(viol(&format!("reencode-differs{}", suffix), &case, hex(&after), hex(&again_bytes)));
            }
            if dbg != format!("{:?}", key) {
                l.viol(viol("decoded-key-differs", &case, format!("{:?}", key), dbg));
            }
        }
        o => l.viol(viol("decode-of-canonical-failed", &case, "Ok".into(), format!("{:?}", o.map(|r| r.map(|_| ()).map_err(|e| format!("{:?}", e)))))),
    }
}

pub fn explore(ex: &Ex) {
    let pal = extra_palette();
    let kmax = ex.pick(2usize, 3, 5);
    ex.bound("c20", "extras_max", json!(kmax));
    ex.bound("c20", "extra_label_palette", json!(pal.len()));
    // ordered selections without repetition
    let mut sels: Vec<Vec<usize>> = vec![vec![]];
    let mut frontier: Vec<Vec<usize>> = vec![vec![]];
    for _ in 0..kmax {
        let mut next = Vec::new();
        for s in &frontier {
            for i in 0..pal.len() {
                if !s.contains(&i) {
                    let mut t = s.clone();
                    t.push(i);
                    next.push(t);
                }
            }
        }
        sels.extend(next.iter().cloned());
        frontier = next;
    }
    ex.bound("c20", "ordered_extra_selections", json!(sels.len()));
    let chunks: Vec<&[Vec<usize>]> = sels.chunks(128).collect();
    let decoded_too = ex.scale != Scale::Small;
    par_partitions(ex.rep, chunks, |chunk, l| {
        for sel in chunk.iter() {
            // values: scalars, and a structured value whose own maps are NOT in any canonical order
            // (canonicalize orders the key's labels; what the parameters hold is not its business)
            let nested = || crate::gen::map(vec![(u(1000), crate::refcbor::TRUE), (crate::gen::t("z"), NULL), (u(2), crate::gen::arr(vec![crate::gen::map(vec![(crate::gen::t("b"), u(1)), (u(0), u(2))])]))]);
            let params: Vec<(RLabel, Item)> = sel.iter().enumerate().map(|(n, i)| (pal[*i].clone(), if n == 2 || (n == 0 && sel.len() == 1) { nested() } else if n % 2 == 0 { u(n as u64) } else { NULL })).collect();
            for kty in [l_int(1), l_text("t")] {
                for mask in 0..16u8 {
                    // all 16 subsets only for small selections; larger ones with none / all typed fields
                    if sel.len() > 2 && mask != 0 && mask != 15 {
                        continue;
                    }
                    let mut key_ops = if mask & 4 != 0 { vec![l_int(2), l_int(1), l_text("x")] } else { vec![] };
                    sort_ops(&mut key_ops);
                    let rk = RKey {
                        kty: kty.clone(),
                        key_id: if mask & 1 != 0 { b"kid".to_vec() } else { vec![] },
                        alg: if mask & 2 != 0 { Some(l_int(-7)) } else { None },
                        key_ops,
                        base_iv: if mask & 8 != 0 { b"iv".to_vec() } else { vec![] },
                        params: params.clone(),
                    };
                    if l.samples.is_empty() && sel.len() == 3 {
                        l.sample(|| json!({"space": "c20", "key": format!("{:?}", rk)}));
                    }
                    for lex in [true, false] {
                        check_key(&rk, lex, false, l);
                        if decoded_too && !sel.contains(&0) {
                            check_key(&rk, lex, true, l);
                        } else if decoded_too && mask == 0 {
                            check_key(&rk, lex, true, l);
                        }
                    }
                }
            }
        }
    });
    // wide keys: many extras of mixed encoded lengths in several deterministic permutations
    let widths: Vec<usize> = match ex.scale {
        Scale::Small => vec![20],
        Scale::Quick => vec![20, 33, 34, 48],
        Scale::Thorough => vec![20, 33, 34, 48, 64, 100],
    };
    ex.bound("c20.wide", "extras", json!(widths));
    let mut deals: Vec<(usize, usize)> = Vec::new();
    for n in &widths {
        for variant in 0..12usize {
            deals.push((*n, variant));
        }
    }
    par_partitions(ex.rep, deals, |(n, variant), l| {
        // a pool in which many labels share an encoded length (one byte: 6..23 and -1..-24; two
        // bytes: 24.., -25.., one-character texts; three bytes; five bytes), dealt round-robin
        let mut pool: Vec<Vec<RLabel>> = vec![
            (6..=23).map(l_int).chain((1..=24).map(|v| l_int(-v))).collect(),
            (24..=60).map(l_int).chain((25..=60).map(|v| l_int(-v))).chain(["a", "b", "z", "q"].iter().map(|t| l_text(t))).collect(),
            (256..=270).map(l_int).chain((257..=270).map(|v| l_int(-v))).chain(["aa", "zz", "ab"].iter().map(|t| l_text(t))).collect(),
            (70000..=70005).map(l_int).collect(),
        ];
        // twelve different label sets per size: the class pattern is rotated and the pools are
        // consumed from either end (an unstable sort's outcome depends on the set, not its order)
        if variant % 2 == 1 {
            for p in pool.iter_mut() {
                p.reverse();
            }
        }
        if variant % 3 == 1 {
            pool[0].rotate_left(7);
            pool[1].rotate_left(11);
        }
        let mut labels: Vec<RLabel> = Vec::new();
        let mut turn = variant / 2;
        while labels.len() < *n {
            let class = [0usize, 0, 1, 0, 1, 2, 0, 3, 1, 0, 0, 2][turn % 12];
            turn += 1;
            if let Some(x) = pool[class].pop() {
                labels.push(x);
            } else if pool.iter().all(|p| p.is_empty()) {
                break;
            }
        }
        let n = &labels.len();
        let perms: Vec<Vec<usize>> = vec![
            (0..*n).collect(),
            (0..*n).rev().collect(),
            (0..*n).map(|k| (k * 7 + 3) % *n).collect::<Vec<_>>(),
            (0..*n).map(|k| (k * 11 + 5) % *n).collect::<Vec<_>>(),
            (0..*n).map(|k| if k % 2 == 0 { k / 2 } else { *n - 1 - k / 2 }).collect(),
            (0..*n).map(|k| (k * 13 + 1) % *n).collect::<Vec<_>>(),
            (0..*n).map(|k| (k * 17 + 2) % *n).collect::<Vec<_>>(),
            (0..*n).map(|k| (k * 19 + 7) % *n).collect::<Vec<_>>(),
            (0..*n).map(|k| (k * 23 + 11) % *n).collect::<Vec<_>>(),
            (0..*n).map(|k| (k * 29 + 4) % *n).collect::<Vec<_>>(),
        ];
        for perm in perms {
            // only true permutations (the multiplicative ones are, when gcd(step, n) == 1)
            let mut seen = vec![false; *n];
            if !perm.iter().all(|k| !std::mem::replace(&mut seen[*k], true)) {
                continue;
            }
            let params: Vec<(RLabel, Item)> = perm.iter().map(|k| (labels[*k].clone(), u(*k as u64))).collect();
            let rk = RKey { kty: l_int(1), key_id: vec![], alg: None, key_ops: vec![], base_iv: vec![], params };
            for lex in [true, false] {
                check_key(&rk, lex, false, l);
                check_key(&rk, lex, true, l);
            }
        }
    });
    // long labels: encoded lengths around every size-class threshold (a length kept in a narrow
    // integer, a head-width change) next to short labels of every kind
    {
        let mut pal: Vec<RLabel> = vec![l_int(6), l_int(-25), l_int(256), l_int(65536), l_int(i64::MIN), l_text("a"), l_text("zz")];
        let lens: &[usize] = match ex.scale {
            Scale::Small => &[24, 254],
            Scale::Quick => &[22, 23, 24, 253, 254, 255, 256],
            Scale::Thorough => &[22, 23, 24, 25, 252, 253, 254, 255, 256, 257, 65532, 65533, 65534, 65535, 65536],
        };
        for n in lens {
            pal.push(RLabel::Text("a".repeat(*n)));
        }
        pal.push(RLabel::Text(format!("{}b", "a".repeat(253))));
        pal.push(RLabel::Text("\u{e9}".repeat(127)));
        ex.bound("c20.long", "labels", json!(pal.len()));
        let mut sels: Vec<Vec<usize>> = Vec::new();
        for a in 0..pal.len() {
            for b2 in 0..pal.len() {
                if a == b2 {
                    continue;
                }
                sels.push(vec![a, b2]);
                if ex.scale != Scale::Small {
                    for c in 0..pal.len() {
                        // triples only where at least one label is long
                        if c != a && c != b2 && (a >= 7 || b2 >= 7 || c >= 7) && (ex.scale == Scale::Thorough || (a + b2 + c) % 3 == 0) {
                            sels.push(vec![a, b2, c]);
                        }
                    }
                }
            }
        }
        let chunks: Vec<&[Vec<usize>]> = sels.chunks(64).collect();
        par_partitions(ex.rep, chunks, |chunk, l| {
            for sel in chunk.iter() {
                let params: Vec<(RLabel, Item)> = sel.iter().enumerate().map(|(n, i)| (pal[*i].clone(), u(n as u64))).collect();
                let rk = RKey { kty: l_int(1), key_id: vec![], alg: None, key_ops: vec![], base_iv: vec![], params };
                for lex in [true, false] {
                    check_key(&rk, lex, false, l);
                    check_key(&rk, lex, true, l);
                }
            }
        });
    }
    let _ = b(b"");
}
