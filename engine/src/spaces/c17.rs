//! C17 — registry names and integers correspond one-to-one with the IANA assignments.

use super::{Ex, Scale};
use crate::mc::{par_partitions, Local, Report, Viol};
use crate::oracle::{Checks, Entry};
use crate::refcbor::Item;
use crate::refcose::{Ty, REG_TYS};
use crate::refiana::{self, Reg, ALL_REGS};
use crate::subject::catch;
use coset::iana::{self, EnumI64, WithPrivateRange};
use serde_json::json;

pub const CHECKS: Checks = Checks { iff: true, fixed_point: true, ..Checks::NONE };

pub fn run(rep: &Report) -> u64 {
    rep.set_rule("C17: for each of the 16 registry enumerations and every integer in [-70000, 70000] plus the 64-bit extremes: from_i64 is Some exactly for the integers the registry snapshot lists, the variant's name (Debug) is the snapshot's identifier for that integer, to_i64 inverts it, every snapshot row is hit; is_private(i) == (i < -65536); every integer of the window decoded through every registry-typed label type and position and classified (name / private / rejected) as the snapshot says; non-trivial = registered or private-range integers and boundary neighbours; distinct by (registry, integer)");
    rep.assume("refiana tables are a faithful snapshot of the IANA registries at the dates quoted in coset's iana module");
    explore(&Ex::own(rep, CHECKS));
    1000
}

fn window(ex: &Ex) -> Vec<i64> {
    let w: i64 = ex.pick(300, 70000, 70000);
    let mut v: Vec<i64> = (-w..=w).collect();
    v.extend([i64::MIN, i64::MIN + 1, -(1 << 32), -(1 << 32) - 1, 1 << 32, i64::MAX - 1, i64::MAX, -65535, -65536, -65537, -65538]);
    v
}

fn viol(case: String, what: &str, expected: String, observed: String) -> Viol {
    Viol { key: format!("C17:{}", what), space: "c17.enum".into(), case, direct: None, expected, observed }
}

fn check_enum<T: EnumI64 + std::fmt::Debug>(ex: &Ex, reg: Reg, ints: &[i64], l: &mut Local) {
    let mut hit = std::collections::BTreeSet::new();
    for i in ints {
        let case = format!("from_i64 {:?} {}", reg, i);
        if let Ok(only) = std::env::var("VERIF_ONLY_CASE") {
            if only != case {
                continue;
            }
        }
        l.state(1);
        l.evaluations += 1;
        l.impl_checked += 1;
        let want = refiana::name_of(reg, *i);
        let got = catch(|| T::from_i64(*i).map(|v| (format!("{:?}", v), v.to_i64())));
        match (want, got) {
            (_, Err(p)) => l.viol(viol(case, &format!("panic:{:?}", reg), "no panic".into(), p)),
            (None, Ok(None)) => {}
            (Some(n), Ok(Some((name, back)))) => {
                hit.insert(*i);
                l.nontrivial(&(reg, *i));
                if name != n {
                    l.viol(viol(case.clone(), &format!("name:{:?}:{}", reg, i), format!("{} = {}", n, i), format!("{} = {}", name, i)));
                }
                if back != *i {
                    l.viol(viol(case, &format!("to_i64:{:?}:{}", reg, i), format!("to_i64(from_i64({})) == {}", i, i), back.to_string()));
                }
            }
            (Some(n), Ok(None)) => l.viol(viol(case, &format!("missing:{:?}:{}", reg, i), format!("{} = {} is registered", n, i), "from_i64 is None".into())),
            (None, Ok(Some((name, _)))) => l.viol(viol(case, &format!("extra:{:?}:{}", reg, i), format!("{} is not registered", i), format!("from_i64 = Some({})", name))),
        }
    }
    if std::env::var("VERIF_ONLY_CASE").is_err() && ex.scale != Scale::Small {
        for (n, v) in refiana::table(reg) {
            if !hit.contains(v) {
                l.viol(viol(format!("row {:?} {}", reg, v), &format!("row-not-hit:{:?}:{}", reg, v), format!("{} = {}", n, v), "not produced by from_i64 over the window".into()));
            }
        }
    }
}

fn check_private<T: WithPrivateRange>(reg: Reg, ints: &[i64], l: &mut Local) {
    for i in ints {
        let case = format!("is_private {:?} {}", reg, i);
        if let Ok(only) = std::env::var("VERIF_ONLY_CASE") {
            if only != case {
                continue;
            }
        }
        l.state(1);
        l.evaluations += 1;
        l.impl_checked += 1;
        let want = refiana::is_private(*i);
        if want {
            l.nontrivial(&("private", reg, *i));
        }
        match catch(|| T::is_private(*i)) {
            Ok(g) if g == want => {}
            Ok(g) => l.viol(viol(case, &format!("is_private:{:?}:{}", reg, i), want.to_string(), g.to_string())),
            Err(p) => l.viol(viol(case, &format!("panic:{:?}", reg), "no panic".into(), p)),
        }
    }
}

pub fn explore(ex: &Ex) {
    let ints = window(ex);
    ex.bound("c17", "integers_per_registry", json!(ints.len()));
    par_partitions(ex.rep, ALL_REGS.to_vec(), |reg, l| {
        l.sample(|| json!({"space": "c17.enum", "registry": format!("{:?}", reg), "rows": refiana::table(*reg).len(), "window": "[-70000, 70000] + extremes"}));
        match reg {
            Reg::HeaderParameter => check_enum::<iana::HeaderParameter>(ex, *reg, &ints, l),
            Reg::HeaderAlgorithmParameter => check_enum::<iana::HeaderAlgorithmParameter>(ex, *reg, &ints, l),
            Reg::Algorithm => check_enum::<iana::Algorithm>(ex, *reg, &ints, l),
            Reg::KeyParameter => check_enum::<iana::KeyParameter>(ex, *reg, &ints, l),
            Reg::OkpKeyParameter => check_enum::<iana::OkpKeyParameter>(ex, *reg, &ints, l),
            Reg::Ec2KeyParameter => check_enum::<iana::Ec2KeyParameter>(ex, *reg, &ints, l),
            Reg::RsaKeyParameter => check_enum::<iana::RsaKeyParameter>(ex, *reg, &ints, l),
            Reg::SymmetricKeyParameter => check_enum::<iana::SymmetricKeyParameter>(ex, *reg, &ints, l),
            Reg::HssLmsKeyParameter => check_enum::<iana::HssLmsKeyParameter>(ex, *reg, &ints, l),
            Reg::WalnutDsaKeyParameter => check_enum::<iana::WalnutDsaKeyParameter>(ex, *reg, &ints, l),
            Reg::KeyType => check_enum::<iana::KeyType>(ex, *reg, &ints, l),
            Reg::EllipticCurve => check_enum::<iana::EllipticCurve>(ex, *reg, &ints, l),
            Reg::KeyOperation => check_enum::<iana::KeyOperation>(ex, *reg, &ints, l),
            Reg::CborTag => check_enum::<iana::CborTag>(ex, *reg, &ints, l),
            Reg::CoapContentFormat => check_enum::<iana::CoapContentFormat>(ex, *reg, &ints, l),
            Reg::CwtClaimName => check_enum::<iana::CwtClaimName>(ex, *reg, &ints, l),
        }
        match reg {
            Reg::Algorithm => check_private::<iana::Algorithm>(*reg, &ints, l),
            Reg::HeaderParameter => check_private::<iana::HeaderParameter>(*reg, &ints, l),
            Reg::EllipticCurve => check_private::<iana::EllipticCurve>(*reg, &ints, l),
            Reg::CwtClaimName => check_private::<iana::CwtClaimName>(*reg, &ints, l),
            _ => {}
        }
    });
    // classification through decoding, all label-typed positions
    let pos = super::c15::positions();
    let label_positions: Vec<usize> = pos
        .iter()
        .enumerate()
        .filter(|(_, p)| {
            matches!(p.0, "header.alg" | "key.alg" | "kdf.alg" | "key.kty" | "header.content_type" | "header.crit" | "key.key_ops" | "claims.key") || p.0.starts_with("reglabel.")
        })
        .map(|(i, _)| i)
        .collect();
    ex.bound("c17", "decode_positions", json!(label_positions.iter().map(|i| pos[*i].0).collect::<Vec<_>>()));
    let chunks: Vec<Vec<i64>> = ints.chunks(512).map(|c| c.to_vec()).collect();
    par_partitions(ex.rep, chunks, |chunk, l| {
        for v in chunk {
            for pi in &label_positions {
                let (_name, ty, ctx) = &pos[*pi];
                let e = ctx(crate::refcbor::Enc::canonical(&Item::int(*v as i128)));
                l.state(1);
                ex.decode(l, "c17.decode", *ty, Entry::Slice, &e.to_bytes());
            }
        }
    });
    // text labels are always kept
    for rt in REG_TYS {
        let mut l = Local::default();
        for s in ["", "a", "ES256", "\u{e9}"] {
            l.state(1);
            ex.decode(&mut l, "c17.text", Ty::RegLabel(rt), Entry::Slice, &Item::text(s).det());
        }
        ex.rep.merge(l);
    }
    // ... at every label-typed position too (where text is allowed, any text is kept)
    {
        let mut l = Local::default();
        for s in ["", "a", "ES256", "\u{e9}", "a:b", "a/b"] {
            for pi in &label_positions {
                let (_name, ty, ctx) = &pos[*pi];
                let e = ctx(crate::refcbor::Enc::canonical(&Item::text(s)));
                l.state(1);
                ex.decode(&mut l, "c17.text", *ty, Entry::Slice, &e.to_bytes());
            }
        }
        ex.rep.merge(l);
    }
}
