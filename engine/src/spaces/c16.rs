//! C16 — label ordering is a total order equal to CBOR's deterministic key ordering.

use super::{Ex, Scale};
use crate::gen;
use crate::mc::{par_partitions, Local, Report, Viol};
use crate::refcbor::Item;
use crate::refcose::REG_TYS;
use crate::refiana::{self, Reg};
use crate::subject::catch;
use coset::iana::{self, EnumI64, WithPrivateRange};
use coset::{Label, RegisteredLabel, RegisteredLabelWithPrivate};
use serde_json::json;
use std::cmp::Ordering;

pub fn run(rep: &Report) -> u64 {
    rep.set_rule("C16: a label set crossing every encoding-length boundary of both signs up to the 64-bit extremes and text lengths 0/1/2/23/24/25/255/256/257/65535/65536 with 1-4 byte characters; all ordered pairs: cmp vs ==, antisymmetry, partial_cmp, agreement with bytewise comparison of independently produced deterministic encodings, cmp_canonical vs (length, bytes); all triples: transitivity; the same for every RegisteredLabel / RegisteredLabelWithPrivate instantiation over all registered values, private-use values and texts (only values decoding or builders can produce); non-trivial = pairs of distinct labels; distinct by (type, pair)");
    rep.assume("deterministic encoding of a label is refcbor's (RFC 8949 section 4.2.1 core deterministic encoding)");
    explore(&Ex::own(rep, crate::oracle::Checks::NONE));
    1000
}

fn viol(what: &str, case: String, expected: String, observed: String) -> Viol {
    Viol { key: format!("C16:{}", what), space: "c16".into(), case, direct: None, expected, observed }
}

/// Check all pairs and triples of `vals` (value, deterministic encoding).
fn check_order<T: Ord + PartialOrd + Eq + std::fmt::Debug + Sync>(ty: &str, vals: &[(T, Vec<u8>)], canonical: Option<&(dyn Fn(&T, &T) -> Ordering + Sync)>, triples: bool, l: &mut Local, part: usize, parts: usize) {
    let only = std::env::var("VERIF_ONLY_CASE").ok();
    for (ia, (a, ea)) in vals.iter().enumerate() {
        if ia % parts != part {
            continue;
        }
        for (ib, (b, eb)) in vals.iter().enumerate() {
            let case = format!("{} pair {:?} {:?}", ty, short(a), short(b));
            if let Some(o) = &only {
                if *o != case {
                    continue;
                }
            }
            l.state(2);
            l.evaluations += 1;
            l.impl_checked += 1;
            if ia != ib {
                l.nontrivial(&(ty, ia, ib));
            }
            let want = ea.cmp(eb);
            let r = catch(|| (a.cmp(b), b.cmp(a), a.partial_cmp(b), a == b));
            let (ab, ba, pab, eq) = match r {
                Ok(x) => x,
                Err(p) => {
                    l.viol(viol(&format!("panic:{}", ty), case, "no panic".into(), p));
                    continue;
                }
            };
            if (ab == Ordering::Equal) != eq || eq != (ea == eb) {
                l.viol(viol(&format!("eq-inconsistent:{}", ty), case.clone(), format!("cmp == Equal iff a == b iff encodings equal ({})", ea == eb), format!("cmp={:?} eq={}", ab, eq)));
            }
            if ab != ba.reverse() {
                l.viol(viol(&format!("antisymmetry:{}", ty), case.clone(), format!("{:?}", ba.reverse()), format!("{:?}", ab)));
            }
            if pab != Some(ab) {
                l.viol(viol(&format!("partial_cmp:{}", ty), case.clone(), format!("Some({:?})", ab), format!("{:?}", pab)));
            }
            if ab != want {
                l.viol(viol(&format!("not-bytewise-order:{}", ty), case.clone(), format!("{:?} (encodings {} vs {})", want, crate::refcbor::hex(&ea[..ea.len().min(12)]), crate::refcbor::hex(&eb[..eb.len().min(12)])), format!("{:?}", ab)));
            }
            if let Some(cc) = canonical {
                let wantc = (ea.len(), ea).cmp(&(eb.len(), eb));
                match catch(|| cc(a, b)) {
                    Ok(g) if g == wantc => {}
                    Ok(g) => l.viol(viol(&format!("not-length-first-order:{}", ty), case.clone(), format!("{:?}", wantc), format!("{:?}", g))),
                    Err(p) => l.viol(viol(&format!("panic:{}", ty), case.clone(), "no panic".into(), p)),
                }
            }
            if triples && only.is_none() {
                for (c, _ec) in vals.iter() {
                    l.transitions += 1;
                    // transitivity on the implementation's own answers
                    let (bc, ac) = match catch(|| (b.cmp(c), a.cmp(c))) {
                        Ok(x) => x,
                        Err(p) => {
                            l.viol(viol(&format!("panic:{}", ty), format!("{} triple {:?} {:?} {:?}", ty, short(a), short(b), short(c)), "no panic".into(), p));
                            continue;
                        }
                    };
                    if ab != Ordering::Greater && bc != Ordering::Greater && ac == Ordering::Greater {
                        l.viol(viol(&format!("transitivity:{}", ty), format!("{} triple {:?} {:?} {:?}", ty, short(a), short(b), short(c)), "a <= c".into(), "a > c".into()));
                    }
                }
            }
        }
    }
}

fn short<T: std::fmt::Debug>(t: &T) -> String {
    let s = format!("{:?}", t);
    if s.len() > 60 {
        format!("{}..len{}", &s[..40], s.len())
    } else {
        s
    }
}

fn reg_vals<T: EnumI64 + Send>(reg: Reg) -> Vec<(RegisteredLabel<T>, Vec<u8>)> {
    let mut v = Vec::new();
    for (_, val) in refiana::table(reg) {
        if let Some(a) = T::from_i64(*val) {
            v.push((RegisteredLabel::Assigned(a), Item::int(*val as i128).det()));
        }
    }
    for s in ["", "a", "b", "aa", "\u{e9}", "zzzzzzzzzzzzzzzzzzzzzzz", "zzzzzzzzzzzzzzzzzzzzzzzz"] {
        v.push((RegisteredLabel::Text(s.to_string()), Item::text(s).det()));
    }
    v
}

fn regp_vals<T: EnumI64 + WithPrivateRange + Send>(reg: Reg) -> Vec<(RegisteredLabelWithPrivate<T>, Vec<u8>)> {
    let mut v = Vec::new();
    for (_, val) in refiana::table(reg) {
        if let Some(a) = T::from_i64(*val) {
            v.push((RegisteredLabelWithPrivate::Assigned(a), Item::int(*val as i128).det()));
        }
    }
    // private-use values on both sides of every head-width boundary, down to the two smallest
    for p in [-65537i64, -65538, -(1 << 31), -(1 << 31) - 1, -(1 << 32), -(1 << 32) - 1, -(1 << 32) - 2, -(1 << 62), i64::MIN + 2, i64::MIN + 1, i64::MIN] {
        v.push((RegisteredLabelWithPrivate::PrivateUse(p), Item::int(p as i128).det()));
    }
    for s in ["", "a", "b", "aa", "\u{e9}", "zzzzzzzzzzzzzzzzzzzzzzz", "zzzzzzzzzzzzzzzzzzzzzzzz"] {
        v.push((RegisteredLabelWithPrivate::Text(s.to_string()), Item::text(s).det()));
    }
    v
}

pub fn explore(ex: &Ex) {
    let thorough = ex.scale == Scale::Thorough;
    let mut labels: Vec<(Label, Vec<u8>)> = Vec::new();
    for v in gen::label_ints(thorough) {
        labels.push((Label::Int(v), Item::int(v as i128).det()));
    }
    for s in gen::label_texts(thorough) {
        let e = Item::text(&s).det();
        labels.push((Label::Text(s), e));
    }
    ex.bound("c16", "labels", json!(labels.len()));
    let parts = 64usize;
    let lab = &labels;
    par_partitions(ex.rep, (0..parts).collect(), |p, l| {
        if *p == 0 {
            l.sample(|| json!({"space": "c16", "pair": ["Int(-25)", "Text(\"a\")"], "checks": "cmp, ==, antisymmetry, partial_cmp, bytewise order of encodings, cmp_canonical, transitivity with every third label"}));
        }
        check_order("Label", lab, Some(&|a: &Label, b: &Label| a.cmp_canonical(b)), true, l, *p, parts);
    });
    // registry-restricted label types
    ex.bound("c16", "registry_label_types", json!(REG_TYS.len()));
    par_partitions(ex.rep, REG_TYS.to_vec(), |rt, l| {
        let name = format!("{:?}/{}", rt.reg, if rt.with_private { "private" } else { "plain" });
        match (rt.reg, rt.with_private) {
            (Reg::Algorithm, true) => check_order(&name, &regp_vals::<iana::Algorithm>(rt.reg), None, true, l, 0, 1),
            (Reg::HeaderParameter, true) => check_order(&name, &regp_vals::<iana::HeaderParameter>(rt.reg), None, true, l, 0, 1),
            (Reg::EllipticCurve, true) => check_order(&name, &regp_vals::<iana::EllipticCurve>(rt.reg), None, true, l, 0, 1),
            (Reg::CwtClaimName, true) => check_order(&name, &regp_vals::<iana::CwtClaimName>(rt.reg), None, true, l, 0, 1),
            (Reg::HeaderParameter, false) => check_order(&name, &reg_vals::<iana::HeaderParameter>(rt.reg), None, true, l, 0, 1),
            (Reg::CoapContentFormat, false) => check_order(&name, &reg_vals::<iana::CoapContentFormat>(rt.reg), None, true, l, 0, 1),
            (Reg::KeyType, false) => check_order(&name, &reg_vals::<iana::KeyType>(rt.reg), None, true, l, 0, 1),
            (Reg::KeyOperation, false) => check_order(&name, &reg_vals::<iana::KeyOperation>(rt.reg), None, true, l, 0, 1),
            (Reg::Algorithm, false) => check_order(&name, &reg_vals::<iana::Algorithm>(rt.reg), None, true, l, 0, 1),
            (Reg::KeyParameter, false) => check_order(&name, &reg_vals::<iana::KeyParameter>(rt.reg), None, true, l, 0, 1),
            (Reg::CborTag, false) => check_order(&name, &reg_vals::<iana::CborTag>(rt.reg), None, true, l, 0, 1),
            (Reg::Ec2KeyParameter, false) => check_order(&name, &reg_vals::<iana::Ec2KeyParameter>(rt.reg), None, true, l, 0, 1),
            _ => {}
        }
    });
}
