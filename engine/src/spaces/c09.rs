//! C09 — message structures: accepted iff they match their CDDL, slots map to fields.

use super::{array_product, Ex, Scale};
use crate::gen;
use crate::mc::{par_partitions, Local, Report};
use crate::oracle::{Checks, Entry};
use crate::refcbor::{encodings, hex, DevOpts, Item};
use crate::refcose::{tag_of, Ty, MSG_TYPES};
use serde_json::json;

pub const CHECKS: Checks = Checks { iff: true, ..Checks::NONE };

pub fn run(rep: &Report) -> u64 {
    rep.set_rule("C09: all arrays of arity 3,4,5 over the slot alphabet (every CBOR kind, valid/invalid headers in both header slots, nested signatures/recipients to depth 3 with the fault at each depth), all arrays of arity 0,1,2,6,7 over a reduced alphabet, all non-arrays; every array decoded as all eight structure types, untagged and under the type's own tag; encodings within d deviations of valid messages; non-trivial = must-accept or single-fault; distinct by (type, bytes)");
    rep.assume("reference structure rules (refcose) transliterate the CDDL of RFC 8152 sections 4.1, 4.2, 5.1, 5.2, 6.1, 6.2");
    explore(&Ex::own(rep, CHECKS));
    1000
}

/// Offer one encoded item to every structure type.
pub fn offer_all_types(ex: &Ex, space: &str, bytes: &[u8], tagged_too: bool, l: &mut Local) {
    for ty in MSG_TYPES {
        ex.decode(l, space, ty, Entry::Slice, bytes);
        if tagged_too {
            if let Some(t) = tag_of(ty) {
                let mut v = Vec::with_capacity(bytes.len() + 2);
                if t < 24 {
                    v.push(0xc0 | t as u8);
                } else {
                    v.push(0xd8);
                    v.push(t as u8);
                }
                v.extend_from_slice(bytes);
                ex.decode(l, space, ty, Entry::Tagged, &v);
            }
        }
    }
}

pub fn valid_messages() -> Vec<(Ty, Item)> {
    use gen::*;
    let p = bwrap(&map(vec![(u(1), i(-7)), (u(4), b(b"11"))]));
    let up = map(vec![(u(5), b(b"iv")), (u(99), t("x"))]);
    let rec = arr(vec![b(b""), map(vec![(u(1), i(-6))]), b(b"ct")]);
    let rec2 = arr(vec![bwrap(&map(vec![(u(1), i(-3))])), map(vec![]), crate::refcbor::NULL, arr(vec![rec.clone()])]);
    vec![
        (Ty::Sign1, arr(vec![p.clone(), up.clone(), b(b"payload"), b(b"sig")])),
        (Ty::Sign1, arr(vec![b(b""), map(vec![]), crate::refcbor::NULL, b(b"")])),
        (Ty::Sign, arr(vec![p.clone(), up.clone(), b(b"payload"), arr(vec![sig_valid(), sig_valid2()])])),
        (Ty::Signature, sig_valid2()),
        (Ty::Mac, arr(vec![p.clone(), up.clone(), b(b"payload"), b(b"tag"), arr(vec![rec.clone(), rec2.clone()])])),
        (Ty::Mac0, arr(vec![p.clone(), up.clone(), b(b"payload"), b(b"tag")])),
        (Ty::Encrypt, arr(vec![p.clone(), up.clone(), b(b"ct"), arr(vec![rec2.clone()])])),
        (Ty::Encrypt0, arr(vec![p.clone(), up.clone(), crate::refcbor::NULL])),
        (Ty::Recipient, rec2.clone()),
        (Ty::Recipient, rec.clone()),
    ]
}

pub fn explore(ex: &Ex) {
    {
        let mut eps: Vec<(Ty, Entry)> = MSG_TYPES.iter().map(|t| (*t, Entry::Slice)).collect();
        eps.extend(crate::refcose::TAGGED_TYPES.iter().map(|t| (*t, Entry::Tagged)));
        super::short_strings(ex, "c09.bytes", &eps, ex.pick(1usize, 2, 3));
    }
    let full = gen::msg_slots();
    let small = gen::msg_slots_small();
    let tiny = gen::msg_slots_tiny();
    let tagged = ex.scale != Scale::Small;
    // arity 5 in the thorough tier: the first 49 slot values (the relational list values appended
    // after them are covered at arity 3 and 4, where COSE_Sign / COSE_Encrypt / recipients live)
    let medium: Vec<Item> = full.iter().take(49).cloned().collect();
    for arity in [3usize, 4, 5] {
        let slots: &[Item] = match (arity, ex.scale) {
            (_, Scale::Small) => &tiny,
            (3, _) => &full,
            (4, Scale::Quick) => &small,
            (4, Scale::Thorough) => &full,
            (5, Scale::Quick) => &small,
            (5, Scale::Thorough) => &medium,
            _ => &small,
        };
        let space = format!("c09.arity{}", arity);
        array_product(ex, &space, slots, arity, &|bytes, l| {
            if l.samples.is_empty() {
                l.sample(|| json!({"space": space, "array_hex": hex(bytes), "decoded_as": "all 8 structure types, untagged and tagged"}));
            }
            offer_all_types(ex, &space, bytes, tagged, l);
        });
    }
    // mixed alphabet for arity 4 in quick: full alphabet in the two header slots and the payload slot
    if ex.scale == Scale::Quick {
        // [full, full, full, small] and [small, small, small, full]
        let enc_full: Vec<Vec<u8>> = full.iter().map(|s| s.det()).collect();
        let enc_small: Vec<Vec<u8>> = small.iter().map(|s| s.det()).collect();
        ex.bound("c09.arity4mixed", "alphabets", json!([[full.len(), full.len(), full.len(), small.len()], [small.len(), small.len(), small.len(), full.len()]]));
        let parts: Vec<usize> = (0..full.len()).collect();
        par_partitions(ex.rep, parts, |a, l| {
            for b in &enc_full {
                for c in &enc_full {
                    for d in &enc_small {
                        let bytes = [&[0x84u8][..], &enc_full[*a], b, c, d].concat();
                        l.state(4);
                        offer_all_types(ex, "c09.arity4mixed", &bytes, false, l);
                    }
                }
            }
            for b in &enc_small {
                for c in &enc_small {
                    for d in &enc_small {
                        let bytes = [&[0x84u8][..], b, c, d, &enc_full[*a]].concat();
                        l.state(4);
                        offer_all_types(ex, "c09.arity4mixed", &bytes, false, l);
                    }
                }
            }
        });
    }
    for arity in [0usize, 1, 2, 6, 7] {
        let space = format!("c09.arity{}", arity);
        let slots: &[Item] = if arity >= 6 && ex.scale != Scale::Thorough { &tiny[..4] } else { &tiny };
        array_product(ex, &space, slots, arity, &|bytes, l| offer_all_types(ex, &space, bytes, tagged, l));
    }
    // long lists of signatures / recipients with the faulty element first, in the middle, last
    {
        use gen::{arr, b, map};
        let mut l = Local::default();
        for n in [9usize, 17, 33, 65, 100, 257] {
            for bad_at in [None, Some(0), Some(n / 2), Some(n - 1)] {
                let sigs: Vec<Item> = (0..n).map(|k| if Some(k) == bad_at { gen::sig_bad_unprotected() } else if k % 2 == 0 { gen::sig_valid() } else { gen::sig_valid2() }).collect();
                let recs: Vec<Item> = (0..n).map(|k| if Some(k) == bad_at { arr(vec![b(b""), map(vec![]), gen::u(1)]) } else { arr(vec![b(b""), map(vec![(gen::u(1), gen::i(-6))]), b(b"ct")]) }).collect();
                l.state(n as u64);
                offer_all_types(ex, "c09.long", &arr(vec![b(b""), map(vec![]), crate::refcbor::NULL, arr(sigs)]).det(), false, &mut l);
                offer_all_types(ex, "c09.long", &arr(vec![b(b""), map(vec![]), b(b"x"), arr(recs.clone())]).det(), false, &mut l);
                offer_all_types(ex, "c09.long", &arr(vec![b(b""), map(vec![]), b(b"p"), b(b"t"), arr(recs)]).det(), false, &mut l);
            }
        }
        ex.rep.merge(l);
    }
    // non-arrays
    let na = gen::non_arrays();
    par_partitions(ex.rep, na, |it, l| {
        l.state(0);
        offer_all_types(ex, "c09.nonarray", &it.det(), tagged, l);
    });
    // opaque byte strings are opaque: every byte-string slot of every valid message (top level and in
    // nested elements) replaced by strings at the head-width thresholds and by contents that look
    // like CBOR themselves (a tag, an array head, an empty bstr / map, nil, break), NUL, 0xff
    {
        let lens: &[usize] = match ex.scale {
            Scale::Small => &[24, 256],
            Scale::Quick => &[0, 1, 23, 24, 255, 256, 65535, 65536],
            Scale::Thorough => &[0, 1, 22, 23, 24, 25, 254, 255, 256, 257, 65534, 65535, 65536, 65537, 1 << 20],
        };
        let mut contents: Vec<Vec<u8>> = lens.iter().map(|n| gen::pattern(*n)).collect();
        for c in [&[0xd2u8, 0x84, 0x40, 0xa0, 0xf6, 0x40][..], &[0x40], &[0xa0], &[0xf6], &[0xff], &[0x00], &[0x84, 0x40, 0xa0, 0xf6, 0x40], &[0xd8, 0x3d], &[0xc2, 0x41, 0x01], &[b' ', b'x', b' '], &[0x30, 0x81], &[0x30, 0x82, 0x01], &[0x30, 0x06, 0x02, 0x01, 0x01, 0x02, 0x01, 0x01], b"-----BEGIN", b"{\"a\":1}", &[0x1f, 0x8b, 0x08], &[0xef, 0xbb, 0xbf]] {
            contents.push(c.to_vec());
        }
        ex.bound("c09.opaque", "contents", json!(contents.len()));
        // positions of byte strings in an item (depth-first), excluding protected-header strings
        // (those must hold a header map: C02 / C08 vary them)
        fn bstr_paths(it: &Item, path: &mut Vec<usize>, out: &mut Vec<Vec<usize>>) {
            match it {
                Item::Bytes(_) => out.push(path.clone()),
                Item::Array(a) => {
                    for (k, x) in a.iter().enumerate() {
                        // slot 0 of a structure array is its protected header
                        if k == 0 && matches!(x, Item::Bytes(_)) {
                            continue;
                        }
                        path.push(k);
                        bstr_paths(x, path, out);
                        path.pop();
                    }
                }
                _ => {}
            }
        }
        fn replace_at(it: &Item, path: &[usize], with: &[u8]) -> Item {
            match (it, path.split_first()) {
                (Item::Bytes(_), None) => Item::Bytes(with.to_vec()),
                (Item::Array(a), Some((k, rest))) => Item::Array(a.iter().enumerate().map(|(j, x)| if j == *k { replace_at(x, rest, with) } else { x.clone() }).collect()),
                (x, _) => x.clone(),
            }
        }
        par_partitions(ex.rep, valid_messages(), |(ty, it), l| {
            let mut paths = Vec::new();
            bstr_paths(it, &mut Vec::new(), &mut paths);
            for path in &paths {
                for c in &contents {
                    let m = replace_at(it, path, c);
                    l.state(1);
                    let bytes = m.det();
                    ex.decode(l, "c09.opaque", *ty, Entry::Slice, &bytes);
                    if tagged {
                        if let Some(t) = crate::refcose::tag_of(*ty) {
                            ex.decode(l, "c09.opaque", *ty, Entry::Tagged, &Item::tag(t, m.clone()).det());
                        }
                    }
                }
            }
        });
    }
    // no tag is transparent: every node of every valid message (the item itself, each nested element,
    // each slot, the contents of each protected byte string) wrapped once in each notable tag number
    // (date/bignum/encoded-CBOR tags, the COSE and CWT tags, self-described CBOR 55799, the head-width
    // boundaries); the whole item also wrapped twice
    {
        let tags: Vec<u64> = vec![0, 1, 2, 3, 4, 5, 16, 17, 18, 19, 21, 22, 23, 24, 25, 32, 35, 36, 61, 96, 97, 98, 99, 255, 256, 55799, 55800, 65535, 65536, 15309736, u32::MAX as u64, 1 << 32, u64::MAX];
        ex.bound("c09.tags", "tag_numbers", json!(tags.len()));
        fn tag_head(n: u64) -> Vec<u8> {
            let mut h = Item::tag(n, Item::UInt(0)).det();
            h.pop();
            h
        }
        fn variants(it: &Item, n: u64, slot0: bool, out: &mut Vec<Item>) {
            out.push(Item::tag(n, it.clone()));
            match it {
                Item::Array(a) => {
                    for (k, x) in a.iter().enumerate() {
                        let mut sub = Vec::new();
                        variants(x, n, k == 0, &mut sub);
                        for v in sub {
                            out.push(Item::Array(a.iter().enumerate().map(|(j, y)| if j == k { v.clone() } else { y.clone() }).collect()));
                        }
                    }
                }
                Item::Bytes(bs) if slot0 => {
                    let mut c = tag_head(n);
                    if bs.is_empty() {
                        c.push(0xa0);
                    } else {
                        c.extend_from_slice(bs);
                    }
                    out.push(Item::Bytes(c));
                }
                _ => {}
            }
        }
        let mut work: Vec<(Item, u64)> = Vec::new();
        for (_, it) in valid_messages() {
            for n in &tags {
                work.push((it.clone(), *n));
            }
        }
        par_partitions(ex.rep, work, |(it, n), l| {
            let mut vs = Vec::new();
            variants(it, *n, false, &mut vs);
            vs.push(Item::tag(*n, Item::tag(*n, it.clone())));
            for v in vs {
                l.state(1);
                offer_all_types(ex, "c09.tags", &v.det(), tagged, l);
            }
        });
    }
    // no structure rule depends on which algorithm a header names: every registered algorithm (and
    // its neighbours, private-use and text) at every alg position of one representative per
    // structure - body and element, protected and unprotected - with payload / ciphertext present
    // and two nested recipients below the recipient
    {
        use crate::refiana::Reg;
        use gen::{arr, b, bwrap, map, sig_valid, t, u};
        let mut algs: Vec<Item> = super::registry_labels(&[Reg::Algorithm]);
        algs.push(t("alg"));
        ex.bound("c09.algs", "algorithms", json!(algs.len()));
        par_partitions(ex.rep, algs, |a, l| {
            let hp = |on: bool| if on { bwrap(&map(vec![(u(1), a.clone())])) } else { b(b"") };
            let hu = |on: bool| if on { map(vec![(u(1), a.clone())]) } else { map(vec![]) };
            let leaf = arr(vec![b(b""), map(vec![]), b(b"k")]);
            let leaf2 = arr(vec![bwrap(&map(vec![(u(4), b(b"r"))])), map(vec![]), crate::refcbor::NULL]);
            for prot in [true, false] {
                let (p, up) = (hp(prot), hu(!prot));
                let rec = arr(vec![p.clone(), up.clone(), b(b"wrapped"), arr(vec![leaf.clone(), leaf2.clone()])]);
                let rec_flat = arr(vec![p.clone(), up.clone(), b(b"wrapped")]);
                let sig = arr(vec![p.clone(), up.clone(), b(b"\x30\x06\x02\x01\x01\x02\x01\x01")]);
                let cases: Vec<(Ty, Item)> = vec![
                    (Ty::Sign1, arr(vec![p.clone(), up.clone(), b(b"payload"), b(b"sig")])),
                    (Ty::Mac0, arr(vec![p.clone(), up.clone(), b(b"payload"), b(b"0123456789abcdef")])),
                    (Ty::Encrypt0, arr(vec![p.clone(), up.clone(), b(b"ct")])),
                    (Ty::Signature, sig.clone()),
                    (Ty::Sign, arr(vec![b(b""), map(vec![]), b(b"payload"), arr(vec![sig.clone(), sig_valid()])])),
                    (Ty::Sign, arr(vec![p.clone(), up.clone(), b(b"payload"), arr(vec![sig_valid()])])),
                    (Ty::Recipient, rec.clone()),
                    (Ty::Recipient, rec_flat.clone()),
                    (Ty::Encrypt, arr(vec![b(b""), map(vec![]), b(b"ct"), arr(vec![rec.clone()])])),
                    (Ty::Encrypt, arr(vec![p.clone(), up.clone(), b(b"ct"), arr(vec![rec_flat.clone(), leaf.clone()])])),
                    (Ty::Mac, arr(vec![b(b""), map(vec![]), b(b"payload"), b(b"0123456789abcdef"), arr(vec![leaf.clone(), rec.clone()])])),
                    (Ty::Mac, arr(vec![p.clone(), up.clone(), b(b"payload"), b(b"tag"), arr(vec![rec_flat.clone()])])),
                ];
                for (ty, m) in cases {
                    l.state(1);
                    ex.decode(l, "c09.algs", ty, Entry::Slice, &m.det());
                }
            }
        });
    }
    // encodings of valid messages
    let d = ex.pick(1usize, 1, 2);
    ex.bound("c09.encodings", "deviations_max", json!(d));
    par_partitions(ex.rep, valid_messages(), |(ty, it), l| {
        for (lvl, e) in encodings(it, d, &DevOpts::NO_BIGNUM) {
            l.state(lvl as u64);
            l.count(&format!("c09.encodings.deviations={}", lvl));
            let bytes = e.to_bytes();
            ex.decode(l, "c09.encodings", *ty, Entry::Slice, &bytes);
            if lvl <= 1 {
                for other in MSG_TYPES {
                    if other != *ty {
                        ex.decode(l, "c09.encodings", other, Entry::Slice, &bytes);
                    }
                }
            }
        }
    });
}
