//! C02 — protected-header bytes are kept and reused bit-for-bit, never re-encoded.

use super::crypto::{self, Cx};
use super::{header_carriers_with, Ex, Scale};
use crate::gen::{self, b, i, map, t, u};
use crate::mc::{par_partitions, Local, Report, Viol};
use crate::oracle::{Checks, Entry};
use crate::refcbor::{encodings, hex, min_w, read_exact, DevOpts, Enc, Item};
use crate::subject::{self, Outcome};
use serde_json::json;

pub const CHECKS: Checks = Checks { iff: true, ..Checks::NONE };

pub fn run(rep: &Report) -> u64 {
    rep.set_rule("C02: header contents (empty, each typed field, pairs, all fields, extras only, counter-signatures only) x every encoding within d deviations of the deterministic one (head widths, indefinite lengths, chunked strings, key order) plus the three empty forms (zero-length, a0, bf ff) x the byte string carrying them written definite, with wide heads, or chunked x 17 protected carrier positions (message bodies, signers, recipients, nested recipients, counter-signatures in unprotected and in protected headers, SuppPubInfo, KDF context); for each: retained bytes == wire bytes at every level and parsed view == reference (field comparison incl. original_data), re-encoding carries exactly the wire bytes, and the to-be-signed / MAC / AEAD structures built from the decoded value (tbs_data, verify/decrypt closures, counter-signature structure) carry them for AAD/payload in {empty, 1 byte, 256 bytes}; non-trivial = encodings that differ from the deterministic one; distinct by message bytes");
    rep.assume("the parsed view is compared through derived Debug of the decoded value against a value constructed from the reference field map");
    explore(&Ex::own(rep, CHECKS));
    1000
}

/// `is_empty()` of a decoded protected header speaks about the parsed view, whatever bytes are
/// retained.
fn emptiness(ex: &Ex) {
    let mut l = Local::default();
    let forms: Vec<(Vec<u8>, bool)> = vec![
        (vec![], true),
        (vec![0xa0], true),
        (vec![0xb8, 0x00], true),
        (vec![0xb9, 0x00, 0x00], true),
        (vec![0xbf, 0xff], true),
        (vec![0xa1, 0x01, 0x26], false),
        (vec![0xa1, 0x18, 0x63, 0xf6], false),
        (vec![0xbf, 0x04, 0x41, 0x6b, 0xff], false),
    ];
    for (wire, empty) in forms {
        let v = coset::cbor::value::Value::Bytes(wire.clone());
        l.state(1);
        l.impl_checked += 1;
        match subject::catch(|| coset::ProtectedHeader::from_cbor_bstr(v).map(|p| (p.is_empty(), p.header.is_empty()))) {
            Ok(Ok((pe, he))) => {
                if pe != empty || he != empty {
                    l.viol(Viol {
                        key: format!("{}:is_empty-of-decoded-protected-header", ex.pid),
                        space: "c02.emptiness".into(),
                        case: format!("from_cbor_bstr(h'{}').is_empty()", hex(&wire)),
                        direct: None,
                        expected: format!("{}", empty),
                        observed: format!("ProtectedHeader::is_empty = {}, Header::is_empty = {}", pe, he),
                    });
                }
            }
            o => l.viol(Viol { key: format!("{}:emptiness-decode-failed", ex.pid), space: "c02.emptiness".into(), case: hex(&wire), direct: None, expected: "Ok".into(), observed: format!("{:?}", o.map(|r| r.map_err(|e| format!("{:?}", e)))) }),
        }
    }
    ex.rep.merge(l);
}

pub fn explore(ex: &Ex) {
    edited(ex);
    emptiness(ex);
    let d = ex.pick(1usize, 1, 2);
    ex.bound("c02", "deviations_max", json!(d));
    let mut contents = gen::header_contents();
    contents.push(map(vec![(u(10), t("unknown")), (i(-70000), b(b"x")), (t("zz"), map(vec![(u(2), u(1)), (u(1), u(2))]))]));
    contents.push(map(vec![(u(4), b(b"k")), (u(1), i(-7))]));
    // what is retained does not depend on which algorithm the header names
    for (_, a) in crate::refiana::table(crate::refiana::Reg::Algorithm) {
        contents.push(map(vec![(u(1), i(*a as i128))]));
    }
    ex.bound("c02", "header_contents", json!(contents.len()));
    let aad256 = gen::pattern(256);
    let aads: Vec<&[u8]> = vec![b"", b"x", &aad256];
    par_partitions(ex.rep, contents, |h, l| {
        let dd = if matches!(h, Item::Map(m) if m.len() > 3) { d.min(1) } else { d };
        let mut forms: Vec<(usize, Vec<u8>)> = encodings(h, dd, &DevOpts::NO_BIGNUM).into_iter().map(|(lvl, e)| (lvl, e.to_bytes())).collect();
        if matches!(h, Item::Map(m) if m.is_empty()) {
            forms.push((1, vec![])); // zero-length string
            forms.push((1, vec![0xbf, 0xff]));
        }
        for (lvl, p) in forms {
            // the byte string that carries p: definite minimal, definite wide head, chunked
            let mut wrappers: Vec<(&str, Vec<u8>)> = vec![("definite", Enc::Bytes(p.clone(), min_w(p.len() as u64)).to_bytes())];
            if lvl <= 1 || ex.scale == Scale::Thorough {
                wrappers.push(("wide-head", Enc::Bytes(p.clone(), 4).to_bytes()));
                if p.len() >= 2 {
                    let (x, y) = p.split_at(p.len() / 2);
                    wrappers.push(("chunked", Enc::BytesIndef(vec![(x.to_vec(), min_w(x.len() as u64)), (y.to_vec(), min_w(y.len() as u64))]).to_bytes()));
                } else {
                    wrappers.push(("chunked", Enc::BytesIndef(if p.is_empty() { vec![] } else { vec![(p.clone(), 0)] }).to_bytes()));
                }
            }
            for (wname, pb) in &wrappers {
                // the byte string on its own, through ProtectedHeader::from_cbor_bstr
                l.state(lvl as u64);
                ex.decode(l, "c02", crate::refcose::Ty::Protected, Entry::Bstr, pb);
                for (cname, ty, bytes) in header_carriers_with(&p, pb, true) {
                    if !cname.ends_with(".protected") {
                        continue;
                    }
                    l.state(lvl as u64);
                    l.count(&format!("c02.deviations={}", lvl));
                    l.count(&format!("c02.wrapper.{}", wname));
                    if lvl > 0 || *wname != "definite" {
                        l.nontrivial(&bytes);
                    }
                    if lvl == 1 && l.samples.is_empty() {
                        l.sample(|| json!({"space": "c02", "carrier": cname, "wrapper": wname, "protected_bytes": hex(&p), "message": hex(&bytes)}));
                    }
                    let case = format!("{} {} {}", crate::oracle::ty_name(ty), "slice", hex(&bytes));
                    if let Ok(only) = std::env::var("VERIF_ONLY_CASE") {
                        if only != case {
                            continue;
                        }
                    }
                    // (1) + (4): retention at every level and parsed view, via the decode oracle
                    ex.decode(l, "c02", ty, Entry::Slice, &bytes);
                    // (2) + (3)
                    reuse(ex, cname, ty, &bytes, &aads, l);
                }
            }
        }
    });
}

/// Decode, edit the parsed view, keep the retained bytes: re-encoding and every structure still
/// carry the received bytes.
fn edited(ex: &Ex) {
    use coset::CborSerializable;
    let mut l = Local::default();
    // all three structure families, full comparison (the expected protected slot is the wire bytes)
    crate::spaces::c03::edited_after_decode(ex, "SME", &mut l);
    crate::spaces::c03::built_then_edited(ex, "SME", &mut l);
    // re-encoding
    let edit = subject::c_header(&crate::spaces::c11::single_field_headers()[0]).unwrap();
    for wire in [vec![], vec![0xa0u8], vec![0xa1, 0x01, 0x38, 0x06]] {
        let pb = crate::spaces::wrap_bstr(&wire);
        let bytes = [&[0x84u8][..], &pb, &[0xa0, 0x41, 0x70, 0x41, 0x73]].concat();
        if let Ok(Ok(mut m)) = subject::catch(|| coset::CoseSign1::from_slice(&bytes)) {
            m.protected.header = edit.clone();
            l.state(1);
            l.impl_checked += 1;
            let out = subject::catch(|| m.clone().to_vec());
            let slot = out.ok().and_then(|r| r.ok()).and_then(|o| crypto::slot_bytes(&o, &[0]));
            if slot.as_deref() != Some(&wire[..]) {
                l.viol(Viol {
                    key: format!("{}:edited-value-reencoded-without-the-retained-bytes", ex.pid),
                    space: "c02.edited".into(),
                    case: format!("Sign1 received with protected bytes {} then header edited", hex(&wire)),
                    direct: None,
                    expected: hex(&wire),
                    observed: format!("{:?}", slot.map(|s| hex(&s))),
                });
            }
        }
    }
    ex.rep.merge(l);
}

/// Re-encoding carries the wire bytes; crypto structures carry them.
fn reuse(ex: &Ex, cname: &str, ty: crate::refcose::Ty, bytes: &[u8], aads: &[&[u8]], l: &mut Local) {
    let case = format!("{} slice {}", crate::oracle::ty_name(ty), hex(bytes));
    let v = match subject::decode(ty, bytes) {
        Outcome::Ok(v) => v,
        _ => return, // accept/reject is the decode oracle's business
    };
    let mk = |what: &str, expected: String, observed: String| Viol {
        key: format!("{}:{}:{}", ex.pid, what, cname),
        space: "c02".into(),
        case: case.clone(),
        direct: Some(json!({"kind": "decode", "ty": crate::oracle::ty_name(ty), "entry": "slice", "hex": hex(bytes), "space": "c02"})),
        expected,
        observed,
    };
    l.impl_checked += 1;
    // the message was written deterministically everywhere except inside / around the protected
    // byte string, so its re-encoding must be the deterministic encoding of the same item
    let want = read_exact(bytes).map(|e| e.item().det());
    match (v.to_vec(), want) {
        (Outcome::Ok(out), Ok(w)) => {
            if out != w {
                l.viol(mk("reencoding-does-not-carry-wire-bytes", hex(&w), hex(&out)));
            }
        }
        (o, _) => l.viol(mk("reencode-failed", "Ok".into(), o.brief())),
    }
    let cx = Cx { pid: ex.pid, space: "c02", case: &case, exact: true, fams: "SME", slots_only: true, body_override: None };
    let detached: Vec<&[u8]> = vec![b"", b"y"];
    crypto::on_any(&cx, v.as_any(), aads, &detached, l);
}
