//! C15 — integers are decoded exactly or rejected as out of range, never wrapped.

use super::{Ex, Scale};
use crate::gen::{self, arr, b, i, u};
use crate::mc::{par_partitions, Report};
use crate::oracle::{Checks, Entry};
use crate::refcbor::{hex, min_w, wider, Enc, Item, NULL};
use crate::refcose::{RegTy, Ty, REG_TYS};
use crate::refiana::Reg;
use serde_json::json;

pub const CHECKS: Checks = Checks { iff: true, kind_range: true, fixed_point: true, same_item: true, ..Checks::NONE };

pub fn run(rep: &Report) -> u64 {
    rep.set_rule("C15: every integer of the boundary lattice +-(2^e+d), e in 0..64, d in -2..2 clipped to [-2^64, 2^64-1], plus a window around 0 (quick +-300, thorough +-70000), at every interpreting position and as the value of an extra parameter/claim, under every head width >= minimal (bignum form: no-crash only); accept/reject, decoded value, out-of-range error kind and the integer read back from the re-encoding are compared with the reference; non-trivial = must-accept or single-fault; distinct by bytes");
    rep.assume("integers between lattice points outside the window follow the same narrowing code path (stated bound, not explored)");
    explore(&Ex::own(rep, CHECKS));
    1000
}

fn c(i: &Item) -> Enc {
    Enc::canonical(i)
}
fn m(entries: Vec<(Enc, Enc)>) -> Enc {
    let n = entries.len() as u64;
    Enc::Map(entries, min_w(n))
}
fn a(items: Vec<Enc>) -> Enc {
    let n = items.len() as u64;
    Enc::Array(items, min_w(n))
}

/// Positions: (name, type, context with a hole for the integer).
pub fn positions() -> Vec<(&'static str, Ty, Box<dyn Fn(Enc) -> Enc + Sync + Send>)> {
    let party = || c(&arr(vec![NULL, NULL, NULL]));
    let supp = || c(&arr(vec![u(128), b(b"")]));
    let mut v: Vec<(&'static str, Ty, Box<dyn Fn(Enc) -> Enc + Sync + Send>)> = vec![
        ("header.key", Ty::Header, Box::new(|h| m(vec![(h, c(&u(1)))]))),
        ("key.key", Ty::Key, Box::new(|h| m(vec![(c(&u(1)), c(&u(1))), (h, c(&b(b"\x01")))]))),
        ("claims.key", Ty::Claims, Box::new(|h| m(vec![(h, c(&u(1)))]))),
        // the same next to other labels of every kind (anything that orders or compares labels sees pairs)
        ("header.key_among_others", Ty::Header, Box::new(|h| m(vec![(c(&u(99)), c(&u(0))), (h, c(&u(1))), (c(&gen::t("z")), c(&u(0))), (c(&i(-70000)), c(&u(0)))]))),
        ("key.key_among_others", Ty::Key, Box::new(|h| m(vec![(c(&u(1)), c(&u(1))), (c(&u(1000)), c(&u(0))), (h, c(&b(b"\x01"))), (c(&gen::t("z")), c(&u(0))), (c(&i(-70000)), c(&u(0)))]))),
        ("claims.key_among_others", Ty::Claims, Box::new(|h| m(vec![(c(&u(8)), c(&u(0))), (h, c(&u(1))), (c(&gen::t("z")), c(&u(0))), (c(&i(-70000)), c(&u(0)))]))),
        // interpreting positions late in a map that is not in canonical order
        ("header.alg_after_text", Ty::Header, Box::new(|h| m(vec![(c(&gen::t("a")), c(&u(0))), (c(&u(1)), h)]))),
        ("header.content_type_after_text", Ty::Header, Box::new(|h| m(vec![(c(&gen::t("a")), c(&u(0))), (c(&i(-70000)), c(&u(0))), (c(&u(3)), h)]))),
        ("key.alg_seventh", Ty::Key, Box::new(|h| m(vec![(c(&u(1)), c(&u(2))), (c(&i(-1)), c(&u(1))), (c(&i(-2)), c(&b(b"x"))), (c(&i(-3)), c(&b(b"y"))), (c(&i(-4)), c(&b(b"d"))), (c(&gen::t("t")), c(&u(0))), (c(&u(3)), h)]))),
        ("key.key_ops_eighth", Ty::Key, Box::new(|h| m(vec![(c(&u(1)), c(&u(2))), (c(&i(-1)), c(&u(1))), (c(&i(-2)), c(&b(b"x"))), (c(&i(-3)), c(&b(b"y"))), (c(&i(-4)), c(&b(b"d"))), (c(&gen::t("t")), c(&u(0))), (c(&u(1000)), c(&u(0))), (c(&u(4)), a(vec![c(&u(1)), h]))]))),
        ("header.alg", Ty::Header, Box::new(|h| m(vec![(c(&u(1)), h)]))),
        ("key.alg", Ty::Key, Box::new(|h| m(vec![(c(&u(1)), c(&u(1))), (c(&u(3)), h)]))),
        ("kdf.alg", Ty::Kdf, Box::new(move |h| a(vec![h, party(), party(), supp()]))),
        ("key.kty", Ty::Key, Box::new(|h| m(vec![(c(&u(1)), h)]))),
        ("header.content_type", Ty::Header, Box::new(|h| m(vec![(c(&u(3)), h)]))),
        ("header.crit", Ty::Header, Box::new(|h| m(vec![(c(&u(2)), a(vec![c(&u(1)), h]))]))),
        ("key.key_ops", Ty::Key, Box::new(|h| m(vec![(c(&u(1)), c(&u(1))), (c(&u(4)), a(vec![h]))]))),
        ("claims.exp", Ty::Claims, Box::new(|h| m(vec![(c(&u(4)), h)]))),
        ("claims.nbf", Ty::Claims, Box::new(|h| m(vec![(c(&u(5)), h)]))),
        ("claims.iat", Ty::Claims, Box::new(|h| m(vec![(c(&u(6)), h)]))),
        ("party.nonce", Ty::Party, Box::new(|h| a(vec![c(&NULL), h, c(&NULL)]))),
        ("supp_pub.key_data_length", Ty::SuppPub, Box::new(|h| a(vec![h, c(&b(b""))]))),
        ("label", Ty::Label, Box::new(|h| h)),
        ("timestamp", Ty::Timestamp, Box::new(|h| h)),
        // uninterpreted positions: preserved whatever the magnitude
        ("header.extra_value", Ty::Header, Box::new(|h| m(vec![(c(&u(99)), h)]))),
        ("key.extra_value", Ty::Key, Box::new(|h| m(vec![(c(&u(1)), c(&u(1))), (c(&i(-1)), h)]))),
        ("claims.extra_value", Ty::Claims, Box::new(|h| m(vec![(c(&u(8)), h)]))),
        ("header.extra_nested_value", Ty::Header, Box::new(|h| m(vec![(c(&gen::t("x")), a(vec![m(vec![(h.clone(), h)])]))]))),
        // keys inside a key set
        ("keyset.key.key", Ty::KeySet, Box::new(|h| a(vec![m(vec![(c(&u(1)), c(&u(1)))]), m(vec![(c(&u(1)), c(&u(1))), (h, c(&b(b"\x01")))])]))),
        ("keyset.key.kty", Ty::KeySet, Box::new(|h| a(vec![m(vec![(c(&u(1)), h)])]))),
        ("keyset.key.alg", Ty::KeySet, Box::new(|h| a(vec![m(vec![(c(&u(1)), c(&u(1))), (c(&u(3)), h)])]))),
        ("keyset.key.key_ops", Ty::KeySet, Box::new(|h| a(vec![m(vec![(c(&u(1)), c(&u(1))), (c(&u(4)), a(vec![h]))])]))),
        // inside a message
        ("sign1.protected.key", Ty::Sign1, Box::new(|h| {
            let inner = m(vec![(h, c(&u(1)))]).to_bytes();
            a(vec![Enc::Bytes(inner.clone(), min_w(inner.len() as u64)), c(&gen::map(vec![])), c(&NULL), c(&b(b""))])
        })),
    ];
    for rt in REG_TYS {
        let name: &'static str = Box::leak(format!("reglabel.{:?}.{}", rt.reg, if rt.with_private { "private" } else { "plain" }).into_boxed_str());
        v.push((name, Ty::RegLabel(rt), Box::new(|h| h)));
    }
    let _ = RegTy { reg: Reg::Algorithm, with_private: true };
    v
}

fn int_enc(v: i128, w: u8) -> Enc {
    if v >= 0 {
        Enc::UInt(v as u64, w)
    } else {
        Enc::NInt((-1 - v) as u64, w)
    }
}

pub fn explore(ex: &Ex) {
    let mut ints: std::collections::BTreeSet<i128> = gen::int_lattice().into_iter().collect();
    let win: i128 = ex.pick(40, 3000, 70000);
    for v in -win..=win {
        ints.insert(v);
    }
    ex.bound("c15", "integers", json!(ints.len()));
    ex.bound("c15", "window", json!(win));
    let pos = positions();
    ex.bound("c15", "positions", json!(pos.iter().map(|p| p.0).collect::<Vec<_>>()));
    let ints: Vec<i128> = ints.into_iter().collect();
    let chunks: Vec<Vec<i128>> = ints.chunks(64).map(|c| c.to_vec()).collect();
    par_partitions(ex.rep, chunks, |chunk, l| {
        for v in chunk {
            let mag = if *v >= 0 { *v as u64 } else { (-1 - *v) as u64 };
            let mw = min_w(mag);
            let mut widths = vec![mw];
            // the window is explored with minimal + widest head; lattice points with every width
            let in_lattice = v.abs() > win || v.abs() < 300;
            if in_lattice {
                widths.extend_from_slice(wider(mw));
            } else if mw < 8 {
                widths.push(8);
            }
            for (pname, ty, ctx) in &pos {
                for w in &widths {
                    let e = ctx(int_enc(*v, *w));
                    let bytes = e.to_bytes();
                    l.state(1);
                    if *v == -(1i128 << 63) - 1 && *w == 8 {
                        l.sample(|| json!({"space": "c15", "position": pname, "integer": v.to_string(), "hex": hex(&bytes)}));
                    }
                    ex.decode(l, "c15", *ty, Entry::Slice, &bytes);
                }
                if in_lattice && *pname == "header.key" {
                    // the same header map at every carrier position (nested signers, recipients,
                    // counter-signatures, KDF context ...): the out-of-range error must survive
                    for (hp, hctx) in [("key", 0usize), ("alg", 1), ("crit", 2)] {
                        let int = int_enc(*v, mw);
                        let hm = match hctx {
                            0 => m(vec![(int, c(&u(1)))]),
                            1 => m(vec![(c(&u(1)), int)]),
                            _ => m(vec![(c(&u(2)), a(vec![int]))]),
                        }
                        .to_bytes();
                        for (cname, cty, cbytes) in crate::spaces::header_carriers(&hm, true) {
                            l.state(1);
                            l.count("c15.carrier_positions");
                            let _ = (hp, cname);
                            ex.decode(l, "c15.carriers", cty, Entry::Slice, &cbytes);
                        }
                    }
                }
                if in_lattice {
                    // bignum form: unspecified verdict, must not crash
                    let big = Enc::canonical(&Item::int(*v)).deviations(&crate::refcbor::DevOpts::ALL).into_iter().find(|d| d.has_bignum_form());
                    if let Some(bg) = big {
                        l.state(1);
                        l.count("c15.bignum_form");
                        ex.decode(l, "c15.bignum", *ty, Entry::Slice, &ctx(bg).to_bytes());
                    }
                }
            }
        }
    });
    if ex.scale == Scale::Thorough {
        ex.bound("c15", "note", json!("window explored with minimal and 8-byte heads; lattice with every width and bignum form"));
    }
}

