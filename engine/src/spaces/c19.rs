//! C19 — builders apply exactly the documented effect of each call, in any order.

use super::bfs::{self, Real, Spec, Step};
use super::msgbuild;
use super::{Ex, Scale};
use crate::gen::{b, t, u};
use crate::mc::Report;
use crate::refcbor::{Item, NULL};
use crate::refcose::*;
use crate::refiana::{self, Reg};
use crate::spaces::c11::{l_int, l_text, sig_reps, sort_ops};
use crate::subject::{self, catch, item_to_value};
use coset::iana::{self, EnumI64};
use coset::{cwt, CoseKeyBuilder, HeaderBuilder};
use serde_json::json;

pub fn run(rep: &Report) -> u64 {
    rep.set_rule("C19: breadth-first search over all call sequences up to depth D of every public method of all 14 builders (header 27 ops, key 5 constructors + 21 ops, claims set 33 ops, signature, the seven message builders incl. their create/try-create helpers, party info, supplementary info, KDF context) with argument palettes including empty, boundary and reserved values; a state is the canonical model value (field map) with the lexicographically smallest history reaching it; every transition replays history+op on a fresh real builder, calls build() and compares the result (derived Debug) with the model's documented effect; refused calls must panic, all others must not; non-trivial = transitions; distinct states by canonical model value");
    rep.assume("a builder's behaviour is a function of its wrapped value only (the crate has no global state; merging histories that reach the same model value is therefore sound once each merged transition has been checked against the implementation)");
    let ex = Ex::own(rep, crate::oracle::Checks::NONE);
    explore(&ex);
    500
}

fn dbg_of(v: &RVal) -> String {
    match subject::construct(v) {
        Ok(Some(s)) => s.debug(),
        Ok(None) => "<unconstructible>".into(),
        Err(e) => format!("<cannot construct: {}>", e),
    }
}

// ---------------------------------------------------------------------------------------------
// HeaderBuilder

#[derive(Clone, Debug, PartialEq)]
pub enum HOp {
    Alg(i64),
    Crit(i64),
    CritLabel(RLabel),
    ContentFormat(i64),
    ContentType(&'static str),
    KeyId(Vec<u8>),
    Iv(Vec<u8>),
    PartialIv(Vec<u8>),
    CounterSig(usize),
    Value(i64, Item),
    TextValue(&'static str, Item),
}

pub fn header_ops() -> Vec<HOp> {
    let mut v = vec![
        HOp::Alg(-7),
        HOp::Alg(1),
        HOp::Crit(1),
        HOp::Crit(4),
        HOp::CritLabel(l_text("t")),
        HOp::ContentFormat(60),
        HOp::ContentFormat(0),
        HOp::ContentType("a/b"),
        HOp::ContentType("x/y"),
        HOp::KeyId(vec![]),
        HOp::KeyId(vec![1]),
        HOp::Iv(vec![]),
        HOp::Iv(vec![2]),
        HOp::PartialIv(vec![]),
        HOp::PartialIv(vec![3]),
        HOp::CounterSig(0),
        HOp::CounterSig(1),
    ];
    for l in [0i64, 1, 4, 7, 8, -1, i64::MIN, i64::MAX] {
        v.push(HOp::Value(l, u(1)));
    }
    v.push(HOp::TextValue("a", u(1)));
    v.push(HOp::TextValue("b", NULL));
    v
}

pub fn header_step(m: &RHeader, op: &HOp) -> Step<RHeader> {
    let mut m = m.clone();
    match op {
        HOp::Alg(a) => m.alg = Some(l_int(*a)),
        HOp::Crit(c) => m.crit.push(l_int(*c)),
        HOp::CritLabel(l) => m.crit.push(l.clone()),
        HOp::ContentFormat(c) => m.content_type = Some(l_int(*c)),
        HOp::ContentType(s) => m.content_type = Some(l_text(s)),
        HOp::KeyId(k) => m.key_id = k.clone(),
        HOp::Iv(v) => {
            m.iv = v.clone();
            m.partial_iv.clear();
        }
        HOp::PartialIv(v) => {
            m.partial_iv = v.clone();
            m.iv.clear();
        }
        HOp::CounterSig(i) => m.counter_signatures.push(sig_reps()[*i].clone()),
        HOp::Value(l, v) => {
            if (1..=7).contains(l) {
                return Step::Refused;
            }
            m.rest.push((l_int(*l), v.clone()));
        }
        HOp::TextValue(l, v) => m.rest.push((l_text(l), v.clone())),
    }
    Step::Next(m)
}

pub fn header_real(ops: &[HOp], hist: &[usize]) -> Real {
    let r = catch(|| {
        let mut bld = HeaderBuilder::new();
        for h in hist {
            bld = match &ops[*h] {
                HOp::Alg(a) => bld.algorithm(iana::Algorithm::from_i64(*a).unwrap()),
                HOp::Crit(c) => bld.add_critical(iana::HeaderParameter::from_i64(*c).unwrap()),
                HOp::CritLabel(l) => bld.add_critical_label(subject::c_reg(l).unwrap()),
                HOp::ContentFormat(c) => bld.content_format(iana::CoapContentFormat::from_i64(*c).unwrap()),
                HOp::ContentType(s) => bld.content_type(s.to_string()),
                HOp::KeyId(k) => bld.key_id(k.clone()),
                HOp::Iv(v) => bld.iv(v.clone()),
                HOp::PartialIv(v) => bld.partial_iv(v.clone()),
                HOp::CounterSig(i) => bld.add_counter_signature(subject::c_signature(&sig_reps()[*i]).unwrap()),
                HOp::Value(l, v) => bld.value(*l, item_to_value(v)),
                HOp::TextValue(l, v) => bld.text_value(l.to_string(), item_to_value(v)),
            };
        }
        format!("{:?}", bld.build())
    });
    match r {
        Ok(d) => Real::Built(d),
        Err(p) => Real::Panicked(p),
    }
}

/// The HeaderBuilder search on its own (also used by the explorer cross-check at setup).
pub fn header_builder_search(rep: &Report, pid: &str, depth: usize, cap: usize) -> (u64, u64) {
    let ops = header_ops();
    let spec = Spec {
        pid,
        name: "HeaderBuilder",
        inits: vec![("new()".to_string(), RHeader::default())],
        nops: ops.len(),
        op_name: &|i| format!("{:?}", ops[i]),
        step: &|m, i| header_step(m, &ops[i]),
        key: &|m| format!("{:?}", m),
        expect: &|m| dbg_of(&RVal::Header(m.clone())),
        real: &|_init, hist| header_real(&ops, hist),
        on_state: Some(&|m: &RHeader, _i, _h, l| {
            // invariant: a built header never carries both an IV and a Partial IV
            if !m.iv.is_empty() && !m.partial_iv.is_empty() {
                l.viol(crate::mc::Viol { key: "C19:MODEL-iv-and-partial-iv".into(), space: "bfs.HeaderBuilder".into(), case: format!("{:?}", m), direct: None, expected: "never both".into(), observed: "both".into() });
            }
        }),
    };
    bfs::run(rep, &spec, depth, cap)
}

// ---------------------------------------------------------------------------------------------
// CoseKeyBuilder

#[derive(Clone, Debug)]
enum KOp {
    Kty(RLabel),
    KeyType(i64),
    KeyId(Vec<u8>),
    BaseIv(Vec<u8>),
    Alg(i64),
    AddKeyOp(i64),
    Param(i64, Item),
}

fn key_ops() -> Vec<KOp> {
    let mut v = vec![
        KOp::Kty(l_int(3)),
        KOp::Kty(l_text("k")),
        KOp::KeyType(2),
        KOp::KeyType(4),
        KOp::KeyId(vec![]),
        KOp::KeyId(vec![1]),
        KOp::BaseIv(vec![2]),
        KOp::Alg(-7),
        KOp::Alg(1),
        KOp::AddKeyOp(1),
        KOp::AddKeyOp(2),
    ];
    for l in [0i64, 1, 2, 3, 4, 5, 6, -1, -4, i64::MIN, i64::MAX] {
        v.push(KOp::Param(l, b(b"\x09")));
    }
    v
}

#[derive(Clone, Debug)]
enum KInit {
    New,
    Ec2Pub(i64, Vec<u8>, Vec<u8>),
    Ec2PubYSign(i64, Vec<u8>, bool),
    Ec2Priv(i64, Vec<u8>, Vec<u8>, Vec<u8>),
    Symmetric(Vec<u8>),
    Okp,
}

fn key_inits() -> Vec<KInit> {
    vec![
        KInit::New,
        KInit::Ec2Pub(1, vec![1], vec![2]),
        KInit::Ec2Pub(8, vec![], vec![3, 4]),
        KInit::Ec2PubYSign(2, vec![5], true),
        KInit::Ec2PubYSign(3, vec![6], false),
        KInit::Ec2Priv(1, vec![1], vec![2], vec![3]),
        KInit::Ec2Priv(2, vec![7], vec![], vec![8, 9]),
        KInit::Symmetric(vec![0xaa]),
        KInit::Symmetric(vec![]),
        KInit::Okp,
    ]
}

fn empty_key(kty: RLabel) -> RKey {
    RKey { kty, key_id: vec![], alg: None, key_ops: vec![], base_iv: vec![], params: vec![] }
}

/// Documented effect of the constructors (Appendix B).  EC2 = 2, Symmetric = 4, OKP = 1;
/// crv = -1, x = -2, y = -3, d = -4; k = -1 (RFC 8152 tables 21-25).
fn key_init_model(i: &KInit) -> RKey {
    match i {
        KInit::New => empty_key(l_int(0)),
        KInit::Ec2Pub(c, x, y) => RKey { params: vec![(l_int(-1), u(*c as u64)), (l_int(-2), Item::Bytes(x.clone())), (l_int(-3), Item::Bytes(y.clone()))], ..empty_key(l_int(2)) },
        KInit::Ec2PubYSign(c, x, s) => RKey { params: vec![(l_int(-1), u(*c as u64)), (l_int(-2), Item::Bytes(x.clone())), (l_int(-3), Item::Simple(if *s { 21 } else { 20 }))], ..empty_key(l_int(2)) },
        KInit::Ec2Priv(c, x, y, d) => RKey {
            params: vec![(l_int(-1), u(*c as u64)), (l_int(-2), Item::Bytes(x.clone())), (l_int(-3), Item::Bytes(y.clone())), (l_int(-4), Item::Bytes(d.clone()))],
            ..empty_key(l_int(2))
        },
        KInit::Symmetric(k) => RKey { params: vec![(l_int(-1), Item::Bytes(k.clone()))], ..empty_key(l_int(4)) },
        KInit::Okp => empty_key(l_int(1)),
    }
}

fn key_step(m: &RKey, op: &KOp) -> Step<RKey> {
    let mut m = m.clone();
    match op {
        KOp::Kty(l) => m.kty = l.clone(),
        KOp::KeyType(t) => m.kty = l_int(*t),
        KOp::KeyId(k) => m.key_id = k.clone(),
        KOp::BaseIv(v) => m.base_iv = v.clone(),
        KOp::Alg(a) => m.alg = Some(l_int(*a)),
        KOp::AddKeyOp(o) => {
            m.key_ops.push(l_int(*o));
            sort_ops(&mut m.key_ops);
        }
        KOp::Param(l, v) => {
            if (1..=5).contains(l) {
                return Step::Refused;
            }
            if *l == 0 {
                return Step::Unspecified;
            }
            m.params.push((l_int(*l), v.clone()));
        }
    }
    Step::Next(m)
}

fn key_real(inits: &[KInit], ops: &[KOp], init: usize, hist: &[usize]) -> Real {
    let r = catch(|| {
        let crv = |c: &i64| iana::EllipticCurve::from_i64(*c).unwrap();
        let mut bld = match &inits[init] {
            KInit::New => CoseKeyBuilder::new(),
            KInit::Ec2Pub(c, x, y) => CoseKeyBuilder::new_ec2_pub_key(crv(c), x.clone(), y.clone()),
            KInit::Ec2PubYSign(c, x, s) => CoseKeyBuilder::new_ec2_pub_key_y_sign(crv(c), x.clone(), *s),
            KInit::Ec2Priv(c, x, y, d) => CoseKeyBuilder::new_ec2_priv_key(crv(c), x.clone(), y.clone(), d.clone()),
            KInit::Symmetric(k) => CoseKeyBuilder::new_symmetric_key(k.clone()),
            KInit::Okp => CoseKeyBuilder::new_okp_key(),
        };
        for h in hist {
            bld = match &ops[*h] {
                KOp::Kty(l) => bld.kty(subject::c_reg(l).unwrap()),
                KOp::KeyType(t) => bld.key_type(iana::KeyType::from_i64(*t).unwrap()),
                KOp::KeyId(k) => bld.key_id(k.clone()),
                KOp::BaseIv(v) => bld.base_iv(v.clone()),
                KOp::Alg(a) => bld.algorithm(iana::Algorithm::from_i64(*a).unwrap()),
                KOp::AddKeyOp(o) => bld.add_key_op(iana::KeyOperation::from_i64(*o).unwrap()),
                KOp::Param(l, v) => bld.param(*l, item_to_value(v)),
            };
        }
        format!("{:?}", bld.build())
    });
    match r {
        Ok(d) => Real::Built(d),
        Err(p) => Real::Panicked(p),
    }
}

// ---------------------------------------------------------------------------------------------
// ClaimsSetBuilder

#[derive(Clone, Debug)]
enum COp {
    Iss(&'static str),
    Sub(&'static str),
    Aud(&'static str),
    Exp(RTime),
    Nbf(RTime),
    Iat(RTime),
    Cti(Vec<u8>),
    Claim(i64),
    TextClaim(&'static str),
    PrivateClaim(i64),
}

fn claims_ops() -> Vec<COp> {
    let mut v = vec![
        COp::Iss("i"),
        COp::Iss(""),
        COp::Sub("s"),
        COp::Aud("a"),
        COp::Exp(RTime::Whole(1)),
        COp::Exp(RTime::Frac(1.5f64.to_bits())),
        COp::Nbf(RTime::Whole(2)),
        COp::Iat(RTime::Whole(3)),
        COp::Cti(vec![1]),
        COp::Cti(vec![]),
    ];
    for (_, val) in refiana::table(Reg::CwtClaimName) {
        v.push(COp::Claim(*val));
    }
    v.push(COp::TextClaim("t"));
    for id in [-65537i64, -65536, -1, 0, 100, i64::MIN] {
        v.push(COp::PrivateClaim(id));
    }
    v
}

fn claims_step(m: &RClaims, op: &COp) -> Step<RClaims> {
    let mut m = m.clone();
    match op {
        COp::Iss(s) => m.iss = Some(s.to_string()),
        COp::Sub(s) => m.sub = Some(s.to_string()),
        COp::Aud(s) => m.aud = Some(s.to_string()),
        COp::Exp(x) => m.exp = Some(x.clone()),
        COp::Nbf(x) => m.nbf = Some(x.clone()),
        COp::Iat(x) => m.iat = Some(x.clone()),
        COp::Cti(c) => m.cti = Some(c.clone()),
        COp::Claim(n) => {
            if (1..=7).contains(n) {
                return Step::Refused;
            }
            m.rest.push((l_int(*n), u(5)));
        }
        COp::TextClaim(s) => m.rest.push((l_text(s), u(6))),
        COp::PrivateClaim(id) => {
            if !(*id < -65536) {
                return Step::Refused;
            }
            m.rest.push((l_int(*id), u(7)));
        }
    }
    Step::Next(m)
}

fn claims_real(ops: &[COp], hist: &[usize]) -> Real {
    let r = catch(|| {
        let mut bld = cwt::ClaimsSetBuilder::new();
        for h in hist {
            bld = match &ops[*h] {
                COp::Iss(s) => bld.issuer(s.to_string()),
                COp::Sub(s) => bld.subject(s.to_string()),
                COp::Aud(s) => bld.audience(s.to_string()),
                COp::Exp(x) => bld.expiration_time(subject::c_time(x)),
                COp::Nbf(x) => bld.not_before(subject::c_time(x)),
                COp::Iat(x) => bld.issued_at(subject::c_time(x)),
                COp::Cti(c) => bld.cwt_id(c.clone()),
                COp::Claim(n) => bld.claim(iana::CwtClaimName::from_i64(*n).unwrap(), item_to_value(&u(5))),
                COp::TextClaim(s) => bld.text_claim(s.to_string(), item_to_value(&u(6))),
                COp::PrivateClaim(id) => bld.private_claim(*id, item_to_value(&u(7))),
            };
        }
        format!("{:?}", bld.build())
    });
    match r {
        Ok(d) => Real::Built(d),
        Err(p) => Real::Panicked(p),
    }
}

// ---------------------------------------------------------------------------------------------
// PartyInfo / SuppPubInfo / KDF context / Signature builders

#[derive(Clone, Debug)]
enum POp {
    Identity(Vec<u8>),
    Nonce(RNonce),
    Other(Vec<u8>),
}

#[derive(Clone, Debug)]
enum SOp {
    Kdl(u64),
    Protected(usize),
    Other(Vec<u8>),
}

#[derive(Clone, Debug)]
enum DOp {
    PartyU(usize),
    PartyV(usize),
    SuppPub(usize),
    Alg(i64),
    AddPriv(Vec<u8>),
}

fn party_pal() -> Vec<RParty> {
    vec![RParty { identity: Some(b"u".to_vec()), nonce: Some(RNonce::Int(7)), other: None }, RParty { identity: None, nonce: Some(RNonce::Bytes(vec![])), other: Some(b"o".to_vec()) }]
}
fn supp_pal() -> Vec<RSuppPub> {
    vec![
        RSuppPub { key_data_length: 128, protected: RProtected::default(), other: None },
        RSuppPub { key_data_length: 256, protected: RProtected { original: None, header: msgbuild::headers()[1].clone() }, other: Some(b"x".to_vec()) },
    ]
}

pub fn explore(ex: &Ex) {
    let depth_big = ex.pick(2usize, 4, 6);
    let depth_small = ex.pick(3usize, 5, 8);
    let cap = ex.pick(20_000usize, 2_000_000, 30_000_000);

    // HeaderBuilder
    header_builder_search(ex.rep, ex.pid, depth_big, cap);
    // CoseKeyBuilder
    {
        let ops = key_ops();
        let inits = key_inits();
        let spec = Spec {
            pid: ex.pid,
            name: "CoseKeyBuilder",
            inits: inits.iter().map(|i| (format!("{:?}", i), key_init_model(i))).collect(),
            nops: ops.len(),
            op_name: &|i| format!("{:?}", ops[i]),
            step: &|m, i| key_step(m, &ops[i]),
            key: &|m| format!("{:?}", m),
            expect: &|m| dbg_of(&RVal::Key(m.clone())),
            real: &|init, hist| key_real(&inits, &ops, init, hist),
            on_state: None,
        };
        bfs::run(ex.rep, &spec, depth_big, cap);
    }
    // key constructors store exactly what they are given: every registered curve x coordinate
    // lengths around every field size, with and without a leading zero octet
    {
        let mut inits: Vec<KInit> = Vec::new();
        let coords: Vec<Vec<u8>> = [0usize, 1, 28, 31, 32, 33, 47, 48, 49, 55, 56, 57, 58, 65, 66, 67]
            .iter()
            .flat_map(|n| {
                let a: Vec<u8> = (0..*n).map(|k| (k as u8).wrapping_mul(13).wrapping_add(0x81)).collect();
                let mut z = a.clone();
                if !z.is_empty() {
                    z[0] = 0;
                }
                vec![a, z]
            })
            .collect();
        for (_, c) in refiana::table(Reg::EllipticCurve) {
            if iana::EllipticCurve::from_i64(*c).is_none() {
                continue;
            }
            for x in &coords {
                inits.push(KInit::Ec2Pub(*c, x.clone(), vec![9]));
                inits.push(KInit::Ec2Pub(*c, vec![9], x.clone()));
                inits.push(KInit::Ec2PubYSign(*c, x.clone(), x.len() % 2 == 0));
                inits.push(KInit::Ec2Priv(*c, vec![7], x.clone(), x.clone()));
            }
        }
        for x in &coords {
            inits.push(KInit::Symmetric(x.clone()));
        }
        ex.bound("c19.constructors", "cases", json!(inits.len()));
        let idx: Vec<usize> = (0..inits.len()).collect();
        let chunks: Vec<&[usize]> = idx.chunks(64).collect();
        crate::mc::par_partitions(ex.rep, chunks, |chunk, l| {
            for i in chunk.iter() {
                let case = format!("constructor {:?}", inits[*i]);
                if let Ok(only) = std::env::var("VERIF_ONLY_CASE") {
                    if only != case {
                        continue;
                    }
                }
                l.state(1);
                l.evaluations += 1;
                l.impl_checked += 1;
                l.nontrivial(&case);
                let want = dbg_of(&RVal::Key(key_init_model(&inits[*i])));
                let got = match key_real(&inits, &[], *i, &[]) {
                    Real::Built(d) => d,
                    Real::Panicked(p) => format!("panic: {}", p),
                    _ => "closure error".to_string(),
                };
                if got != want {
                    l.viol(crate::mc::Viol { key: format!("{}:constructor-differs:CoseKeyBuilder", ex.pid), space: "c19.constructors".into(), case, direct: None, expected: want, observed: got });
                }
            }
        });
    }
    // ClaimsSetBuilder
    {
        let ops = claims_ops();
        let spec = Spec {
            pid: ex.pid,
            name: "ClaimsSetBuilder",
            inits: vec![("new()".to_string(), RClaims::default())],
            nops: ops.len(),
            op_name: &|i| format!("{:?}", ops[i]),
            step: &|m, i| claims_step(m, &ops[i]),
            key: &|m| format!("{:?}", m),
            expect: &|m| dbg_of(&RVal::Claims(m.clone())),
            real: &|_init, hist| claims_real(&ops, hist),
            on_state: None,
        };
        // claim adders accumulate (states do not merge): one level less than the other large alphabets
        bfs::run(ex.rep, &spec, ex.pick(2usize, 4, 5), cap);
    }
    // PartyInfoBuilder
    {
        let ops = vec![
            POp::Identity(vec![]),
            POp::Identity(vec![1]),
            POp::Nonce(RNonce::Bytes(vec![2])),
            POp::Nonce(RNonce::Int(-3)),
            POp::Nonce(RNonce::Int(i64::MAX)),
            POp::Other(vec![4]),
            POp::Other(vec![]),
        ];
        let spec = Spec {
            pid: ex.pid,
            name: "PartyInfoBuilder",
            inits: vec![("new()".to_string(), RParty::default())],
            nops: ops.len(),
            op_name: &|i| format!("{:?}", ops[i]),
            step: &|m, i| {
                let mut m = m.clone();
                match &ops[i] {
                    POp::Identity(x) => m.identity = Some(x.clone()),
                    POp::Nonce(n) => m.nonce = Some(n.clone()),
                    POp::Other(x) => m.other = Some(x.clone()),
                }
                Step::Next(m)
            },
            key: &|m| format!("{:?}", m),
            expect: &|m| dbg_of(&RVal::Party(m.clone())),
            real: &|_init, hist| {
                let r = catch(|| {
                    let mut bld = coset::PartyInfoBuilder::new();
                    for h in hist {
                        bld = match &ops[*h] {
                            POp::Identity(x) => bld.identity(x.clone()),
                            POp::Nonce(RNonce::Bytes(x)) => bld.nonce(coset::Nonce::Bytes(x.clone())),
                            POp::Nonce(RNonce::Int(x)) => bld.nonce(coset::Nonce::Integer(*x)),
                            POp::Other(x) => bld.other(x.clone()),
                        };
                    }
                    format!("{:?}", bld.build())
                });
                match r {
                    Ok(d) => Real::Built(d),
                    Err(p) => Real::Panicked(p),
                }
            },
            on_state: None,
        };
        bfs::run(ex.rep, &spec, depth_small, cap);
    }
    // SuppPubInfoBuilder
    {
        let hs = msgbuild::headers();
        let ops = vec![SOp::Kdl(0), SOp::Kdl(u64::MAX), SOp::Protected(0), SOp::Protected(1), SOp::Protected(2), SOp::Other(vec![]), SOp::Other(vec![5])];
        let spec = Spec {
            pid: ex.pid,
            name: "SuppPubInfoBuilder",
            inits: vec![("new()".to_string(), RSuppPub::default())],
            nops: ops.len(),
            op_name: &|i| format!("{:?}", ops[i]),
            step: &|m, i| {
                let mut m = m.clone();
                match &ops[i] {
                    SOp::Kdl(x) => m.key_data_length = *x,
                    SOp::Protected(h) => m.protected = RProtected { original: None, header: hs[*h].clone() },
                    SOp::Other(x) => m.other = Some(x.clone()),
                }
                Step::Next(m)
            },
            key: &|m| format!("{:?}", m),
            expect: &|m| dbg_of(&RVal::SuppPub(m.clone())),
            real: &|_init, hist| {
                let r = catch(|| {
                    let mut bld = coset::SuppPubInfoBuilder::new();
                    for h in hist {
                        bld = match &ops[*h] {
                            SOp::Kdl(x) => bld.key_data_length(*x),
                            SOp::Protected(h) => bld.protected(subject::c_header(&hs[*h]).unwrap()),
                            SOp::Other(x) => bld.other(x.clone()),
                        };
                    }
                    format!("{:?}", bld.build())
                });
                match r {
                    Ok(d) => Real::Built(d),
                    Err(p) => Real::Panicked(p),
                }
            },
            on_state: None,
        };
        bfs::run(ex.rep, &spec, depth_small, cap);
    }
    // CoseKdfContextBuilder (private fields: observed through Debug and through the encoding)
    {
        let pp = party_pal();
        let sp = supp_pal();
        let ops = vec![DOp::PartyU(0), DOp::PartyU(1), DOp::PartyV(0), DOp::PartyV(1), DOp::SuppPub(0), DOp::SuppPub(1), DOp::Alg(-7), DOp::Alg(1), DOp::AddPriv(vec![]), DOp::AddPriv(vec![9])];
        // the fields are private: the built context is observed through an independent parse of its
        // encoding, compared with the reference encoding of the model
        let render = |m: &RKdf| -> String { format!("{:?}", encode(&RVal::Kdf(m.clone()))) };
        let spec = Spec {
            pid: ex.pid,
            name: "CoseKdfContextBuilder",
            inits: vec![("new()".to_string(), RKdf { alg: l_int(0), u: RParty::default(), v: RParty::default(), supp_pub: RSuppPub::default(), supp_priv: vec![] })],
            nops: ops.len(),
            op_name: &|i| format!("{:?}", ops[i]),
            step: &|m, i| {
                let mut m = m.clone();
                match &ops[i] {
                    DOp::PartyU(x) => m.u = pp[*x].clone(),
                    DOp::PartyV(x) => m.v = pp[*x].clone(),
                    DOp::SuppPub(x) => m.supp_pub = sp[*x].clone(),
                    DOp::Alg(a) => m.alg = l_int(*a),
                    DOp::AddPriv(x) => m.supp_priv.push(x.clone()),
                }
                Step::Next(m)
            },
            key: &|m| format!("{:?}", m),
            expect: &|m| render(m),
            real: &|_init, hist| {
                let r = catch(|| {
                    let mut bld = coset::CoseKdfContextBuilder::new();
                    for h in hist {
                        bld = match &ops[*h] {
                            DOp::PartyU(x) => bld.party_u_info(subject::c_party(&pp[*x])),
                            DOp::PartyV(x) => bld.party_v_info(subject::c_party(&pp[*x])),
                            DOp::SuppPub(x) => bld.supp_pub_info(subject::c_supp_pub(&sp[*x]).unwrap()),
                            DOp::Alg(a) => bld.algorithm(iana::Algorithm::from_i64(*a).unwrap()),
                            DOp::AddPriv(x) => bld.add_supp_priv_info(x.clone()),
                        };
                    }
                    let v = bld.build();
                    let enc = coset::CborSerializable::to_vec(v.clone()).ok().and_then(|bytes| crate::refcbor::read_exact(&bytes).ok()).map(|e| e.item());
                    // Debug must not panic either
                    let _ = format!("{:?}", v);
                    enc.map(|i| format!("{:?}", i)).unwrap_or_else(|| "<no encoding>".into())
                });
                match r {
                    Ok(d) => Real::Built(d),
                    Err(p) => Real::Panicked(p),
                }
            },
            on_state: None,
        };
        bfs::run(ex.rep, &spec, depth_small.min(6), cap);
    }
    // the seven message builders and the signature builder (setters, adders, create helpers)
    for kind in msgbuild::ALL_KINDS {
        // message builders have small state spaces: searched deeper (COSE_Sign accumulates signers)
        let d = if kind == msgbuild::Kind::Sign { ex.pick(2usize, 4, 6) } else { ex.pick(2usize, 5, 8) };
        msgbuild::run_c19(ex, kind, d, cap);
    }
    ex.bound("c19", "depth_large_alphabets", json!(depth_big));
    ex.bound("c19", "depth_small_alphabets", json!(depth_small));
    let _ = (t("x"), json!(0));
}
