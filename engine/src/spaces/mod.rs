//! One space definition (alphabet, bound, oracle selection) per property.

use crate::gen;
use crate::mc::{par_partitions, Local, Report, Tier};
use crate::oracle::{self, check_decode, Case, Checks, Entry};
use crate::refcbor::{hex, unhex, Item};
use crate::refcose::Ty;
use serde_json::{json, Value as Json};

pub mod c07;
pub mod c11;
pub mod c01;
pub mod c02;
pub mod bfs;
pub mod c03;
pub mod c06;
pub mod c08;
pub mod c09;
pub mod c10;
pub mod c12;
pub mod c13;
pub mod c14;
pub mod c15;
pub mod c16;
pub mod c17;
pub mod c18;
pub mod c19;
pub mod c20;
pub mod crypto;
pub mod msgbuild;

#[derive(Clone, Copy, Debug, PartialEq, Eq, PartialOrd, Ord)]
pub enum Scale {
    /// reduced bounds, used when another property re-runs a space with an expensive oracle
    Small,
    Quick,
    Thorough,
}

/// Exploration context: which property is being checked, with which oracle components.
pub struct Ex<'a> {
    pub rep: &'a Report,
    pub pid: &'a str,
    pub checks: Checks,
    pub scale: Scale,
}

impl<'a> Ex<'a> {
    pub fn own(rep: &'a Report, checks: Checks) -> Ex<'a> {
        let scale = match rep.tier {
            Tier::Quick => Scale::Quick,
            Tier::Thorough => Scale::Thorough,
        };
        Ex { rep, pid: &rep.id, checks, scale }
    }
    pub fn pick<T>(&self, s: T, q: T, t: T) -> T {
        match self.scale {
            Scale::Small => s,
            Scale::Quick => q,
            Scale::Thorough => t,
        }
    }
    pub fn decode(&self, l: &mut Local, space: &str, ty: Ty, entry: Entry, bytes: &[u8]) {
        if let Ok(only) = std::env::var("VERIF_ONLY_CASE") {
            if only != format!("{} {} {}", oracle::ty_name(ty), entry.name(), hex(bytes)) {
                return;
            }
        }
        check_decode(&Case { pid: self.pid, space, ty, entry, bytes }, &self.checks, l);
    }
    pub fn bound(&self, space: &str, k: &str, v: Json) {
        self.rep.bound(&format!("{}.{}", space, k), v);
    }
}

pub fn bstr_head(n: usize, out: &mut Vec<u8>) {
    crate::refcbor::Enc::Bytes(vec![], 0); // (keeps the import honest)
    let w = crate::refcbor::min_w(n as u64);
    match w {
        0 => out.push(0x40 | n as u8),
        1 => {
            out.push(0x58);
            out.push(n as u8)
        }
        2 => {
            out.push(0x59);
            out.extend_from_slice(&(n as u16).to_be_bytes())
        }
        4 => {
            out.push(0x5a);
            out.extend_from_slice(&(n as u32).to_be_bytes())
        }
        _ => {
            out.push(0x5b);
            out.extend_from_slice(&(n as u64).to_be_bytes())
        }
    }
}

pub fn wrap_bstr(content: &[u8]) -> Vec<u8> {
    let mut v = Vec::with_capacity(content.len() + 9);
    bstr_head(content.len(), &mut v);
    v.extend_from_slice(content);
    v
}

pub fn cat(parts: &[&[u8]]) -> Vec<u8> {
    parts.concat()
}

/// Explore every ordered sequence (with repetition) of at most `depth` pairs as a CBOR map; `offer`
/// receives the encoded map of every node of the tree (not only the leaves).
pub fn map_tree(ex: &Ex, space: &str, pairs: &[(Item, Item)], depth: usize, offer: &(dyn Fn(&[u8], usize, &mut Local) + Sync)) {
    let enc: Vec<Vec<u8>> = pairs.iter().map(|(k, v)| [k.det(), v.det()].concat()).collect();
    ex.bound(space, "map_entries_max", json!(depth));
    ex.bound(space, "pair_alphabet", json!(pairs.len()));
    let mut parts: Vec<Option<usize>> = vec![None];
    if depth > 0 {
        parts.extend((0..pairs.len()).map(Some));
    }
    fn rec(enc: &[Vec<u8>], seq: &mut Vec<usize>, depth: usize, space: &str, offer: &(dyn Fn(&[u8], usize, &mut Local) + Sync), l: &mut Local) {
        let mut bytes = vec![0xa0 | seq.len() as u8];
        for i in seq.iter() {
            bytes.extend_from_slice(&enc[*i]);
        }
        l.state(seq.len() as u64);
        if seq.len() == 2 {
            l.sample(|| json!({"space": space, "pair_indices": seq.clone(), "map_hex": hex(&bytes)}));
        }
        offer(&bytes, seq.len(), l);
        if seq.len() < depth {
            for i in 0..enc.len() {
                seq.push(i);
                rec(enc, seq, depth, space, offer, l);
                seq.pop();
            }
        }
    }
    let enc_ref = &enc;
    par_partitions(ex.rep, parts, |p, l| match p {
        None => {
            l.state(0);
            offer(&[0xa0], 0, l);
        }
        Some(first) => {
            let mut seq = vec![*first];
            rec(enc_ref, &mut seq, depth, space, offer, l);
        }
    });
}

/// Explore every array of exactly `arity` slots over `slots`; `offer` gets the encoded array.
pub fn array_product(ex: &Ex, space: &str, slots: &[Item], arity: usize, offer: &(dyn Fn(&[u8], &mut Local) + Sync)) {
    let enc: Vec<Vec<u8>> = slots.iter().map(|s| s.det()).collect();
    ex.bound(space, &format!("arity{}_slot_alphabet", arity), json!(slots.len()));
    if arity == 0 {
        let mut l = Local::default();
        l.state(0);
        offer(&[0x80], &mut l);
        ex.rep.merge(l);
        return;
    }
    let enc_ref = &enc;
    let parts: Vec<usize> = (0..slots.len()).collect();
    par_partitions(ex.rep, parts, |first, l| {
        let radices = vec![enc_ref.len(); arity - 1];
        let mut f = |d: &[usize]| {
            let mut bytes = vec![0x80 | arity as u8];
            bytes.extend_from_slice(&enc_ref[*first]);
            for i in d {
                bytes.extend_from_slice(&enc_ref[*i]);
            }
            l.state(arity as u64);
            offer(&bytes, l);
        };
        if arity == 1 {
            f(&[]);
        } else {
            crate::mc::odometer(&radices, f);
        }
    });
}

/// Wide maps: `n` distinct valid extra pairs around the given typed pairs, with `fault` (if any)
/// inserted at the front, in the middle and at the end.  Offers every variant to `offer`.
pub fn wide_maps(ex: &Ex, space: &str, extras: &dyn Fn(usize) -> (Item, Item), typed: &[(Item, Item)], faults: &[(Item, Item)], offer: &(dyn Fn(&[u8], &mut Local) + Sync)) {
    let sizes: Vec<usize> = match ex.scale {
        Scale::Small => vec![17],
        Scale::Quick => vec![9, 17, 33, 65],
        Scale::Thorough => vec![8, 9, 16, 17, 32, 33, 64, 65, 100, 129, 257, 300],
    };
    ex.bound(space, "wide_map_sizes", json!(sizes));
    let mut l = Local::default();
    for n in sizes {
        let mut base: Vec<(Item, Item)> = (0..n).map(extras).collect();
        for (k, t) in typed.iter().enumerate() {
            base.insert((k * 7 + 3) % (base.len() + 1), t.clone());
        }
        l.state(n as u64);
        offer(&Item::Map(base.clone()).det(), &mut l);
        let mut rev = base.clone();
        rev.reverse();
        offer(&Item::Map(rev).det(), &mut l);
        for f in faults {
            for pos in [0, base.len() / 2, base.len()] {
                let mut m = base.clone();
                m.insert(pos, f.clone());
                l.state(n as u64);
                offer(&Item::Map(m).det(), &mut l);
            }
        }
    }
    ex.rep.merge(l);
}

/// Every value of the given registries (plus their neighbours and the edges of the private-use
/// range), as CBOR integers, de-duplicated: the labels at which a decoder might branch.
pub fn registry_labels(regs: &[crate::refiana::Reg]) -> Vec<Item> {
    let mut seen = std::collections::BTreeSet::new();
    for r in regs {
        for (_, v) in crate::refiana::table(*r) {
            for d in [-1i64, 0, 1] {
                seen.insert(v.saturating_add(d) as i128);
            }
        }
    }
    for v in [-65537i128, -65536, -65535, 65535, 65536, i64::MAX as i128, i64::MIN as i128] {
        seen.insert(v);
    }
    seen.into_iter().map(gen::i).collect()
}

/// The opaque value palette plus the shapes registry-specific validation would care about (lists
/// of 0..3 byte strings, nested maps, integers beyond the i64 range).
pub fn kinds_plus() -> Vec<Item> {
    let mut k = gen::kinds();
    k.extend([
        gen::arr(vec![gen::t("x")]),
        gen::arr(vec![gen::b(b"c")]),
        gen::arr(vec![gen::b(b"c"), gen::b(b"d")]),
        gen::arr(vec![gen::b(b"c"), gen::b(b"d"), gen::b(b"e")]),
        gen::map(vec![(gen::u(1), gen::map(vec![(gen::u(1), gen::u(2))]))]),
        gen::u(1 << 63),
        gen::i(i64::MIN as i128),
        gen::u(65535),
        gen::u(65536),
        gen::t("a/b"),
        // an opaque value is not the crate's map: what it holds (even a repeated key) is kept
        gen::map(vec![(gen::t("a"), gen::u(1)), (gen::t("a"), gen::u(2))]),
        gen::arr(vec![gen::map(vec![(gen::u(1), gen::u(1)), (gen::u(1), gen::u(1))])]),
    ]);
    k
}

/// Every byte string of length <= maxlen through the given entry points (differential against the
/// reference reader + rules: the bytes are not assumed to be CBOR at all).
pub fn short_strings(ex: &Ex, space: &str, eps: &[(Ty, Entry)], maxlen: usize) {
    ex.bound(space, "all_byte_strings_up_to_len", json!(maxlen));
    let mut parts: Vec<Option<u8>> = vec![None];
    parts.extend((0..=255u8).map(Some));
    par_partitions(ex.rep, parts, |first, l| match first {
        None => {
            l.state(0);
            for (ty, e) in eps {
                ex.decode(l, space, *ty, *e, &[]);
            }
        }
        Some(f) => {
            let mut buf = vec![*f; maxlen.max(1)];
            for len in 1..=maxlen {
                let n = len - 1;
                for x in 0..(1u64 << (8 * n)) {
                    for k in 0..n {
                        buf[1 + k] = (x >> (8 * (n - 1 - k))) as u8;
                    }
                    l.state(len as u64);
                    for (ty, e) in eps {
                        ex.decode(l, space, *ty, *e, &buf[..len]);
                    }
                }
            }
        }
    });
}

/// Every place a header map can occur: (description, type to decode, message bytes).  `map` is the
/// encoded header map.  Valid filler everywhere else, so the verdict hinges on the map alone.
pub fn header_carriers(map: &[u8], all: bool) -> Vec<(&'static str, Ty, Vec<u8>)> {
    header_carriers_with(map, &wrap_bstr(map), all)
}

/// As `header_carriers`, with the encoded byte string `pb` (which may be chunked or use a wide
/// head) used wherever the map is carried as a protected header.
pub fn header_carriers_with(map: &[u8], pb: &[u8], all: bool) -> Vec<(&'static str, Ty, Vec<u8>)> {
    let pb = pb.to_vec();
    let e0: &[u8] = &[0x40];
    let m0: &[u8] = &[0xa0];
    let nil: &[u8] = &[0xf6];
    let pl: &[u8] = &[0x41, 0x70];
    let sig_with = |prot: &[u8], unprot: &[u8]| cat(&[&[0x83], prot, unprot, &[0x41, 0xaa]]);
    let rec_with = |prot: &[u8], unprot: &[u8]| cat(&[&[0x83], prot, unprot, &[0x42, 0x63, 0x74]]);
    let sigs1 = cat(&[&[0x81], &sig_with(e0, m0)]);
    let recs1 = cat(&[&[0x81], &rec_with(e0, m0)]);
    let mut v: Vec<(&'static str, Ty, Vec<u8>)> = vec![
        ("Header", Ty::Header, map.to_vec()),
        ("Sign1.unprotected", Ty::Sign1, cat(&[&[0x84], e0, map, nil, e0])),
        ("Sign1.protected", Ty::Sign1, cat(&[&[0x84], &pb, m0, nil, e0])),
    ];
    if all {
        let sig_p = sig_with(&pb, m0);
        let sig_u = sig_with(e0, map);
        let rec_p = rec_with(&pb, m0);
        let rec_u = rec_with(e0, map);
        let rec_nested_p = cat(&[&[0x84], e0, m0, nil, &[0x81], &rec_p]);
        let rec_nested_u = cat(&[&[0x84], e0, m0, nil, &[0x81], &rec_u]);
        let hdr_cs_p = cat(&[&[0xa1, 0x07], &sig_p]);
        let hdr_cs_u = cat(&[&[0xa1, 0x07], &sig_u]);
        let hdr_cs2_p = cat(&[&[0xa1, 0x07, 0x82], &sig_with(e0, m0), &sig_p]);
        v.extend(vec![
            ("ProtectedHeader.from_slice", Ty::Protected, map.to_vec()),
            ("Signature.protected", Ty::Signature, sig_p.clone()),
            ("Signature.unprotected", Ty::Signature, sig_u.clone()),
            ("Sign.protected", Ty::Sign, cat(&[&[0x84], &pb, m0, nil, &sigs1])),
            ("Sign.unprotected", Ty::Sign, cat(&[&[0x84], e0, map, nil, &sigs1])),
            ("Sign.signer0.protected", Ty::Sign, cat(&[&[0x84], e0, m0, nil, &[0x81], &sig_p])),
            ("Sign.signer1.unprotected", Ty::Sign, cat(&[&[0x84], e0, m0, nil, &[0x82], &sig_with(e0, m0), &sig_u])),
            ("Mac.protected", Ty::Mac, cat(&[&[0x85], &pb, m0, pl, e0, &recs1])),
            ("Mac.unprotected", Ty::Mac, cat(&[&[0x85], e0, map, pl, e0, &recs1])),
            ("Mac.recipient.protected", Ty::Mac, cat(&[&[0x85], e0, m0, pl, e0, &[0x81], &rec_p])),
            ("Mac.recipient.recipient.unprotected", Ty::Mac, cat(&[&[0x85], e0, m0, pl, e0, &[0x81], &rec_nested_u])),
            ("Mac0.protected", Ty::Mac0, cat(&[&[0x84], &pb, m0, pl, e0])),
            ("Mac0.unprotected", Ty::Mac0, cat(&[&[0x84], e0, map, pl, e0])),
            ("Encrypt.protected", Ty::Encrypt, cat(&[&[0x84], &pb, m0, pl, &recs1])),
            ("Encrypt.recipient.unprotected", Ty::Encrypt, cat(&[&[0x84], e0, m0, pl, &[0x81], &rec_u])),
            ("Encrypt.recipient.recipient.protected", Ty::Encrypt, cat(&[&[0x84], e0, m0, pl, &[0x81], &rec_nested_p])),
            ("Encrypt0.protected", Ty::Encrypt0, cat(&[&[0x83], &pb, m0, pl])),
            ("Encrypt0.unprotected", Ty::Encrypt0, cat(&[&[0x83], e0, map, pl])),
            ("Recipient.protected", Ty::Recipient, rec_p.clone()),
            ("Recipient.recipient.protected", Ty::Recipient, rec_nested_p.clone()),
            ("Header.countersig.protected", Ty::Header, hdr_cs_p.clone()),
            ("Header.countersig.unprotected", Ty::Header, hdr_cs_u.clone()),
            ("Header.countersigs[1].protected", Ty::Header, hdr_cs2_p.clone()),
            ("Sign1.protected.countersig.protected", Ty::Sign1, cat(&[&[0x84], &wrap_bstr(&hdr_cs_p), m0, &[0x41, 0x70], e0])),
            // deeper combinations: counter-signatures inside recipients / signers
            ("Mac.recipient.protected.countersig.protected", Ty::Mac, cat(&[&[0x85], e0, m0, pl, e0, &[0x81], &rec_with(&wrap_bstr(&hdr_cs_p), m0)])),
            ("Encrypt.recipient.unprotected.countersig.unprotected", Ty::Encrypt, cat(&[&[0x84], e0, m0, pl, &[0x81], &rec_with(e0, &hdr_cs_u)])),
            ("Sign.signer1.protected.countersigs[1].protected", Ty::Sign, cat(&[&[0x84], e0, m0, nil, &[0x82], &sig_with(e0, m0), &sig_with(&wrap_bstr(&hdr_cs2_p), m0)])),
            ("Recipient.recipient[1].recipient.protected", Ty::Recipient, cat(&[&[0x84], e0, m0, nil, &[0x82], &rec_with(e0, m0), &rec_nested_p])),
            ("SuppPubInfo.protected", Ty::SuppPub, cat(&[&[0x82, 0x18, 0x80], &pb])),
            ("KdfContext.supp_pub.protected", Ty::Kdf, cat(&[&[0x84, 0x26, 0x83, 0xf6, 0xf6, 0xf6, 0x83, 0xf6, 0xf6, 0xf6, 0x82, 0x18, 0x80], &pb])),
        ]);
    }
    v
}

/// Run the space(s) of property `rep.id`; returns the minimum number of states below which the run
/// counts as vacuous.
pub fn run(rep: &Report) -> Option<u64> {
    match rep.id.as_str() {
        "C01" => Some(c01::run(rep)),
        "C02" => Some(c02::run(rep)),
        "C03" => Some(c03::run_c03(rep)),
        "C04" => Some(c03::run_c04(rep)),
        "C05" => Some(c03::run_c05(rep)),
        "C06" => Some(c06::run(rep)),
        "C07" => Some(c07::run(rep)),
        "C08" => Some(c08::run(rep)),
        "C09" => Some(c09::run(rep)),
        "C10" => Some(c10::run(rep)),
        "C11" => Some(c11::run(rep)),
        "C12" => Some(c12::run(rep)),
        "C13" => Some(c13::run(rep)),
        "C14" => Some(c14::run(rep)),
        "C15" => Some(c15::run(rep)),
        "C16" => Some(c16::run(rep)),
        "C17" => Some(c17::run(rep)),
        "C18" => Some(c18::run(rep)),
        "C19" => Some(c19::run(rep)),
        "C20" => Some(c20::run(rep)),
        _ => None,
    }
}

/// Oracle components a property applies to decode cases.
pub fn checks_for(pid: &str) -> Checks {
    match pid {
        "C01" => c01::CHECKS,
        "C02" => c02::CHECKS,
        "C07" => c07::CHECKS,
        "C08" => c08::CHECKS,
        "C09" => c09::CHECKS,
        "C10" => c10::CHECKS,
        "C12" => c12::CHECKS,
        "C13" => c13::CHECKS,
        "C14" => c14::CHECKS,
        "C15" => c15::CHECKS,
        "C17" => c17::CHECKS,
        "C18" => c18::CHECKS,
        _ => Checks::NONE,
    }
}

/// Sanity of the reference model itself against literals from RFC 8152 appendix C (typed in from
/// the RFC text, independent of coset's test vectors).
pub fn selftest() -> Result<usize, String> {
    use crate::refcose::*;
    let mut n = c01::selftest()?;
    let h = |s: &str| unhex(s).unwrap();
    // C.2.1 single-signer COSE_Sign1: protected {1: -7}, unprotected {4: '11'}
    let sign1 = h("d28443a10126a10442313154546869732069732074686520636f6e74656e742e58408eb33e4ca31d1c465ab05aac34cc6b23d58fef5c083106c4d25a91aef0b0117e2af9a291aa32e14ab834dc56ed2a223444547e01f11d3b0916e5a4c345cacb36");
    let it = match crate::refcbor::read_all(&sign1) {
        crate::refcbor::ReadAll::One(e) => e.item(),
        x => return Err(format!("RFC vector does not parse: {:?}", x)),
    };
    match decode_tagged(Ty::Sign1, &it) {
        Verdict::Accept(RVal::Sign1(s)) => {
            if s.protected.original != Some(h("a10126")) || s.protected.header.alg != Some(RLabel::Int(-7)) || s.unprotected.key_id != b"11".to_vec() || s.payload != Some(b"This is the content.".to_vec()) || s.signature.len() != 64 {
                return Err(format!("RFC 8152 C.2.1 decoded wrongly by the reference: {:?}", s));
            }
            // Sig_structure of C.2.1 (external_aad empty)
            let want = h("846a5369676e61747572653143a101264054546869732069732074686520636f6e74656e742e");
            let got = sig_structure("Signature1", &h("a10126"), None, b"", b"This is the content.");
            if got != want {
                return Err(format!("reference Sig_structure differs from RFC 8152 C.2.1: {}", hex(&got)));
            }
            n += 2;
        }
        v => return Err(format!("reference rejects RFC 8152 C.2.1: {:?}", v)),
    }
    // must not be accepted as the shape-sharing types under its own tag
    for other in [Ty::Mac0, Ty::Encrypt, Ty::Sign] {
        if let Verdict::Accept(_) = decode_tagged(other, &it) {
            return Err(format!("reference accepts a tag-18 item as {:?}", other));
        }
        n += 1;
    }
    // MAC_structure / Enc_structure shapes (RFC 8152 sections 6.3, 5.3)
    if mac_structure("MAC0", &h("a10105"), b"", b"This is the content.") != h("84644d41433043a101054054546869732069732074686520636f6e74656e742e") {
        return Err("reference MAC_structure literal mismatch".into());
    }
    if enc_structure("Encrypt0", &h("a1010a"), b"") != h("8368456e63727970743043a1010a40") {
        return Err("reference Enc_structure literal mismatch".into());
    }
    n += 2;
    // a key from RFC 8152 C.7.1 (first key, trimmed): kty EC2, kid, crv, x, y
    let key = h("a5010220012158206 5eda5a12577c2bae829437fe338701a10aaa375e1bb5b5de108de439c08551d2258201e52ed75701163f7f9e40ddf9f341b3dc9ba860af7e0ca7ca7e9eecd0084d19c0258246d65726961646f632e6272616e64796275636b406275636b6c616e642e6578616d706c65");
    let it = match crate::refcbor::read_all(&key) {
        crate::refcbor::ReadAll::One(e) => e.item(),
        x => return Err(format!("RFC key vector does not parse: {:?}", x)),
    };
    match decode(Ty::Key, &it) {
        Verdict::Accept(RVal::Key(k)) if k.kty == RLabel::Int(2) && k.params.len() == 3 && k.key_id.len() == 36 => n += 1,
        v => return Err(format!("reference mis-decodes RFC 8152 C.7.1 key: {:?}", v)),
    }
    // encode(decode(x)) is the identity on the data model for a deterministic input
    if let Verdict::Accept(v) = decode(Ty::Key, &it) {
        if !crate::refcose::eq_mod_map_order(&encode(&v), &it) {
            return Err("reference encode/decode not inverse on RFC key".into());
        }
        n += 1;
    }
    Ok(n)
}

pub fn child(args: &[String]) -> i32 {
    c01::child(args)
}

/// Re-execute a self-contained (decode) case; Some(reproduced) or None if the case is not
/// self-contained.
pub fn recheck(pid: &str, v: &crate::mc::Viol) -> Option<bool> {
    let d = v.direct.as_ref()?;
    if d["kind"] != "decode" {
        return None;
    }
    let ty = oracle::parse_ty(d["ty"].as_str()?)?;
    let entry = Entry::parse(d["entry"].as_str()?)?;
    let bytes = unhex(d["hex"].as_str()?)?;
    let mut l = Local::default();
    let case = Case { pid, space: d["space"].as_str().unwrap_or("recheck"), ty, entry, bytes: &bytes };
    let mut checks = checks_for(pid);
    if pid == "C07" || pid == "C13" || pid == "C01" {
        // these properties re-run other spaces with their own oracle components
        checks = checks_for(pid);
    }
    check_decode(&case, &checks, &mut l);
    if pid == "C02" {
        return None; // C02's reuse checks are outside the decode oracle
    }
    let _ = &v.key;
    Some(!l.viols.is_empty())
}

/// Replay one recorded case without the explorer.  Exit code 1 if the violation reproduces.
pub fn replay(path: &str) -> i32 {
    let txt = match std::fs::read_to_string(path) {
        Ok(t) => t,
        Err(e) => {
            eprintln!("cannot read {}: {}", path, e);
            return 2;
        }
    };
    let j: Json = match serde_json::from_str(&txt) {
        Ok(j) => j,
        Err(e) => {
            eprintln!("cannot parse {}: {}", path, e);
            return 2;
        }
    };
    let pid = j["property"].as_str().unwrap_or("").to_string();
    let d = &j["direct"];
    let mut l = Local::default();
    if d["kind"] == "decode" {
        let ty = oracle::parse_ty(d["ty"].as_str().unwrap_or(""));
        let entry = Entry::parse(d["entry"].as_str().unwrap_or(""));
        let bytes = unhex(d["hex"].as_str().unwrap_or("zz"));
        match (ty, entry, bytes) {
            (Some(ty), Some(entry), Some(bytes)) => {
                let case = Case { pid: &pid, space: d["space"].as_str().unwrap_or("replay"), ty, entry, bytes: &bytes };
                check_decode(&case, &checks_for(&pid), &mut l);
            }
            _ => {
                eprintln!("bad decode case in {}", path);
                return 2;
            }
        }
    } else if d["kind"] == "rung" {
        c01::replay_rung(d, &mut l);
    } else {
        // search the space for the recorded case
        let tier = if j["tier"] == "thorough" { Tier::Thorough } else { Tier::Quick };
        let rep = Report::new(&pid, tier);
        std::env::set_var("VERIF_ONLY_CASE", j["case"].as_str().unwrap_or(""));
        if run(&rep).is_none() {
            eprintln!("unknown property {}", pid);
            return 2;
        }
        l = rep.take();
    }
    if l.viols.is_empty() {
        println!("replay: no violation on this tree for {}", path);
        0
    } else {
        for v in &l.viols {
            println!("VIOLATION property={} replay={}", pid, path);
            println!("    key: {}", v.key);
            println!("    expected: {}", crate::mc::truncate(&v.expected, 2000));
            println!("    observed: {}", crate::mc::truncate(&v.observed, 2000));
        }
        1
    }
}
