//! One space definition (alphabet, bound, oracle selection) per property.

use crate::mc::{Local, Report, Tier};
use crate::oracle::{self, Checks, Entry};
use crate::refcbor::unhex;
use serde_json::Value as Json;

pub mod c08;

/// Run the space(s) of property `rep.id`; returns the minimum number of states below which the run
/// counts as vacuous.
pub fn run(rep: &Report) -> Option<u64> {
    match rep.id.as_str() {
        "C08" => Some(c08::run(rep)),
        _ => None,
    }
}

/// Oracle components a property applies to decode cases.
pub fn checks_for(pid: &str) -> Checks {
    match pid {
        "C08" => c08::CHECKS,
        _ => Checks::NONE,
    }
}

pub fn selftest() -> Result<usize, String> {
    Ok(0)
}

pub fn child(_args: &[String]) -> i32 {
    2
}

/// Replay one recorded case without the explorer.  Exit code 1 if the violation reproduces.
pub fn replay(path: &str) -> i32 {
    let txt = match std::fs::read_to_string(path) {
        Ok(t) => t,
        Err(e) => {
            eprintln!("cannot read {}: {}", path, e);
            return 2;
        }
    };
    let j: Json = match serde_json::from_str(&txt) {
        Ok(j) => j,
        Err(e) => {
            eprintln!("cannot parse {}: {}", path, e);
            return 2;
        }
    };
    let pid = j["property"].as_str().unwrap_or("").to_string();
    let d = &j["direct"];
    let mut l = Local::default();
    if d["kind"] == "decode" {
        let ty = oracle::parse_ty(d["ty"].as_str().unwrap_or(""));
        let entry = Entry::parse(d["entry"].as_str().unwrap_or(""));
        let bytes = unhex(d["hex"].as_str().unwrap_or("zz"));
        match (ty, entry, bytes) {
            (Some(ty), Some(entry), Some(bytes)) => {
                let case = oracle::Case { pid: &pid, space: d["space"].as_str().unwrap_or("replay"), ty, entry, bytes: &bytes };
                oracle::check_decode(&case, &checks_for(&pid), &mut l);
            }
            _ => {
                eprintln!("bad decode case in {}", path);
                return 2;
            }
        }
    } else {
        // search the space for the recorded case
        let tier = if j["tier"] == "thorough" { Tier::Thorough } else { Tier::Quick };
        let rep = Report::new(&pid, tier);
        std::env::set_var("VERIF_ONLY_CASE", j["case"].as_str().unwrap_or(""));
        if run(&rep).is_none() {
            eprintln!("unknown property {}", pid);
            return 2;
        }
        l = rep.take();
    }
    if l.viols.is_empty() {
        println!("replay: no violation on this tree for {}", path);
        0
    } else {
        for v in &l.viols {
            println!("VIOLATION property={} replay={}", pid, path);
            println!("    key: {}", v.key);
            println!("    expected: {}", crate::mc::truncate(&v.expected, 2000));
            println!("    observed: {}", crate::mc::truncate(&v.observed, 2000));
        }
        1
    }
}
