//! C06 — what is signed, MACed or encrypted is what is later verified or decrypted.

use super::bfs::{self, Spec};
use super::msgbuild::{self, closure_output, Built, Created, Kind, MOp, Msg, Recorder};
use super::{Ex, Scale};
use crate::mc::{Local, Report, Viol};
use crate::refcbor::hex;
use crate::subject::{self, catch};
use coset::{CborSerializable, ProtectedHeader, TaggedCborSerializable};
use serde_json::json;
use std::cell::RefCell;

pub fn run(rep: &Report) -> u64 {
    rep.set_rule("C06: breadth-first search over all call sequences up to depth D of the seven message builders (field setters, adders and every create / try-create / detached helper with recording closures whose outputs are numbered); at every reached state the message is built, serialised untagged and tagged, parsed back, and for every signature / tag / ciphertext slot whose protected header and payload were set before its creation the verify / decrypt helper is called with a recording closure: it must receive exactly the stored value and exactly the bytes the creator was given, return the closure's Ok and Err unchanged; every perturbation of AAD, payload (embedded or detached), body protected header and signer protected header must change the bytes; failing creators must yield their error and no message (checked on every transition); non-trivial = states with at least one created slot; distinct by canonical model value incl. creation bookkeeping");
    rep.assume("closure outputs are numbered per history so that every created value is distinguishable; staleness (a protected-header or payload setter after creation) is tracked by the model because the property only speaks about messages whose headers and payload were set before");
    let ex = Ex::own(rep, crate::oracle::Checks::NONE);
    explore(&ex);
    500
}

fn viol(pid: &str, kind: Kind, what: &str, case: &str, expected: String, observed: String) -> Viol {
    Viol { key: format!("{}:{}:{:?}", pid, what, kind), space: format!("bfs.c06.{:?}", kind), case: case.to_string(), direct: None, expected, observed }
}

type Rec2 = RefCell<Option<(Vec<u8>, Vec<u8>)>>;

/// Call a verify-style helper twice (closure returning Ok, then Err) and return what the closure saw.
fn verify2(call: &dyn Fn(&dyn Fn(&[u8], &[u8]) -> Result<(), String>) -> Result<(), String>) -> Result<(Vec<u8>, Vec<u8>), String> {
    let mut seen_first: Option<(Vec<u8>, Vec<u8>)> = None;
    for ok in [true, false] {
        let seen: Rec2 = RefCell::new(None);
        let clo = |a: &[u8], b: &[u8]| -> Result<(), String> {
            *seen.borrow_mut() = Some((a.to_vec(), b.to_vec()));
            if ok {
                Ok(())
            } else {
                Err("verify-error".to_string())
            }
        };
        let r = catch(|| call(&clo)).map_err(|p| format!("panic: {}", p))?;
        let want: Result<(), String> = if ok { Ok(()) } else { Err("verify-error".to_string()) };
        if r != want {
            return Err(format!("result not passed through: closure returned {:?}, helper returned {:?}", want, r));
        }
        let s = seen.borrow().clone().ok_or_else(|| "closure not called".to_string())?;
        if let Some(f) = &seen_first {
            if *f != s {
                return Err("closure arguments differ between two identical calls".to_string());
            }
        }
        seen_first = Some(s);
    }
    Ok(seen_first.unwrap())
}

fn decrypt2(call: &dyn Fn(&dyn Fn(&[u8], &[u8]) -> Result<Vec<u8>, String>) -> Result<Vec<u8>, String>) -> Result<(Vec<u8>, Vec<u8>), String> {
    let mut seen_first: Option<(Vec<u8>, Vec<u8>)> = None;
    for ok in [true, false] {
        let seen: Rec2 = RefCell::new(None);
        let clo = |a: &[u8], b: &[u8]| -> Result<Vec<u8>, String> {
            *seen.borrow_mut() = Some((a.to_vec(), b.to_vec()));
            if ok {
                Ok(b"plaintext!".to_vec())
            } else {
                Err("decrypt-error".to_string())
            }
        };
        let r = catch(|| call(&clo)).map_err(|p| format!("panic: {}", p))?;
        let want: Result<Vec<u8>, String> = if ok { Ok(b"plaintext!".to_vec()) } else { Err("decrypt-error".to_string()) };
        if r != want {
            return Err(format!("result not passed through: closure returned {:?}, helper returned {:?}", want, r));
        }
        let s = seen.borrow().clone().ok_or_else(|| "closure not called".to_string())?;
        seen_first = Some(s);
    }
    Ok(seen_first.unwrap())
}

struct Ck<'a> {
    pid: &'a str,
    kind: Kind,
    case: &'a str,
}

impl<'a> Ck<'a> {
    fn v(&self, l: &mut Local, what: &str, expected: String, observed: String) {
        l.viol(viol(self.pid, self.kind, what, self.case, expected, observed));
    }
    /// `got` is what a verify/decrypt closure saw; it must be (stored, created-with).
    fn same(&self, l: &mut Local, what: &str, got: Result<(Vec<u8>, Vec<u8>), String>, stored: &[u8], created_with: &[u8]) {
        l.impl_checked += 1;
        l.count("verify_calls_compared");
        match got {
            Err(e) => self.v(l, &format!("{}:failed", what), "helper hands (stored value, creator's bytes) to the closure".into(), e),
            Ok((first, data)) => {
                if first != stored {
                    self.v(l, &format!("{}:not-the-stored-value", what), hex(stored), hex(&first));
                }
                if data != created_with {
                    self.v(l, &format!("{}:bytes-differ-from-what-was-signed", what), hex(created_with), hex(&data));
                }
            }
        }
    }
    fn differs(&self, l: &mut Local, what: &str, got: Result<(Vec<u8>, Vec<u8>), String>, created_with: &[u8]) {
        l.impl_checked += 1;
        l.count("perturbations_compared");
        match got {
            Err(e) => self.v(l, &format!("{}:failed", what), "helper calls the closure".into(), e),
            Ok((_, data)) => {
                if data == created_with {
                    self.v(l, &format!("{}:perturbation-not-reflected", what), "different bytes".into(), "the same bytes as for the unperturbed input".into());
                }
            }
        }
    }
}

/// Protected headers to swap in as perturbation: every palette header whose encoding differs.
fn other_protected(current: &ProtectedHeader) -> Vec<ProtectedHeader> {
    // "different" is decided on the header *content* (different contents have different encodings),
    // never on the subject's own encoding of it
    // (retained bytes of nested counter signatures are not content: a decoded header and the built
    // header it came from are the same header)
    let content = |h: &coset::Header| crate::spaces::c11::strip_original(&format!("{:?}", h));
    let cur = content(&current.header);
    msgbuild::headers()
        .iter()
        .map(|h| ProtectedHeader { original_data: None, header: subject::c_header(h).unwrap() })
        .filter(|p| content(&p.header) != cur)
        .collect()
}

fn check_state(pid: &str, kind: Kind, ops: &[MOp], m: &Msg, case: &str, hist: &[usize], l: &mut Local) {
    let fresh_main = m.main.as_ref().filter(|c| !c.stale);
    let fresh_signers: Vec<(usize, &Created)> = m.signers.iter().enumerate().filter_map(|(i, c)| c.as_ref().filter(|c| !c.stale).map(|c| (i, c))).collect();
    if fresh_main.is_none() && fresh_signers.is_empty() {
        return;
    }
    l.nontrivial(case);
    if l.samples.is_empty() && hist.len() >= 3 {
        l.sample(|| json!({"space": format!("bfs.c06.{:?}", kind), "history": case, "checked": "built -> to_vec/to_tagged_vec -> from_slice/from_tagged_slice -> verify/decrypt with recording closure == (stored value, bytes the creator saw); perturbed AAD / payload / protected headers change the bytes"}));
    }
    let ck = Ck { pid, kind, case };
    let rec = Recorder::default();
    let built = match msgbuild::real_run(kind, ops, hist, &rec) {
        Ok(b) => b,
        Err(_) => {
            ck.v(l, "replay-failed", "history replays".into(), "panic / closure error".into());
            return;
        }
    };
    let records = rec.calls.borrow().clone();
    let aads = msgbuild::aads();
    let pls = msgbuild::payloads();
    let other = |i: usize| 1 - i;

    macro_rules! wire_forms {
        ($ty:ty, $val:expr) => {{
            let mut forms: Vec<(&str, $ty)> = Vec::new();
            match catch(|| $val.clone().to_vec().and_then(|b| <$ty>::from_slice(&b))) {
                Ok(Ok(d)) => forms.push(("untagged", d)),
                o => ck.v(l, "wire-roundtrip-failed", "encode + decode Ok".into(), format!("{:?}", o.map(|r| r.map(|_| ()).map_err(|e| format!("{:?}", e))))),
            }
            forms
        }};
        ($ty:ty, $val:expr, tagged) => {{
            let mut forms = wire_forms!($ty, $val);
            match catch(|| $val.clone().to_tagged_vec().and_then(|b| <$ty>::from_tagged_slice(&b))) {
                Ok(Ok(d)) => forms.push(("tagged", d)),
                o => ck.v(l, "tagged-wire-roundtrip-failed", "encode + decode Ok".into(), format!("{:?}", o.map(|r| r.map(|_| ()).map_err(|e| format!("{:?}", e))))),
            }
            forms
        }};
    }

    match &built {
        Built::Signature(_) => {}
        Built::Sign1(v) => {
            let c = fresh_main.unwrap();
            let created_with = &records[c.call].1;
            let stored = closure_output(c.call);
            for (form, d) in wire_forms!(coset::CoseSign1, v, tagged) {
                let aad = &aads[c.aad];
                match c.detached {
                    None => {
                        ck.same(l, &format!("Sign1.verify_signature[{}]", form), verify2(&|f| d.verify_signature(aad, |s, x| f(s, x))), &stored, created_with);
                        ck.differs(l, "Sign1.verify_signature[aad']", verify2(&|f| d.verify_signature(&aads[other(c.aad)], |s, x| f(s, x))), created_with);
                        let mut e = d.clone();
                        e.payload = Some(b"another payload".to_vec());
                        ck.differs(l, "Sign1.verify_signature[payload']", verify2(&|f| e.verify_signature(aad, |s, x| f(s, x))), created_with);
                    }
                    Some(p) => {
                        ck.same(l, &format!("Sign1.verify_detached_signature[{}]", form), verify2(&|f| d.verify_detached_signature(&pls[p], aad, |s, x| f(s, x))), &stored, created_with);
                        ck.differs(l, "Sign1.verify_detached_signature[aad']", verify2(&|f| d.verify_detached_signature(&pls[p], &aads[other(c.aad)], |s, x| f(s, x))), created_with);
                        ck.differs(l, "Sign1.verify_detached_signature[payload']", verify2(&|f| d.verify_detached_signature(&pls[other(p)], aad, |s, x| f(s, x))), created_with);
                    }
                }
                for p2 in other_protected(&d.protected) {
                    let mut e = d.clone();
                    e.protected = p2;
                    let r = match c.detached {
                        None => verify2(&|f| e.verify_signature(aad, |s, x| f(s, x))),
                        Some(p) => verify2(&|f| e.verify_detached_signature(&pls[p], aad, |s, x| f(s, x))),
                    };
                    ck.differs(l, "Sign1.verify[protected']", r, created_with);
                }
            }
        }
        Built::Sign(v) => {
            for (form, d) in wire_forms!(coset::CoseSign, v, tagged) {
                for (idx, c) in &fresh_signers {
                    let created_with = &records[c.call].1;
                    let stored = closure_output(c.call);
                    let aad = &aads[c.aad];
                    let run = |msg: &coset::CoseSign, aad: &[u8], pay: Option<&[u8]>| match pay {
                        None => verify2(&|f| msg.verify_signature(*idx, aad, |s, x| f(s, x))),
                        Some(p) => verify2(&|f| msg.verify_detached_signature(*idx, p, aad, |s, x| f(s, x))),
                    };
                    let pay: Option<&[u8]> = c.detached.map(|p| pls[p].as_slice());
                    ck.same(l, &format!("Sign.verify[{}][signer {}]", form, idx), run(&d, aad, pay), &stored, created_with);
                    ck.differs(l, "Sign.verify[aad']", run(&d, &aads[other(c.aad)], pay), created_with);
                    match c.detached {
                        None => {
                            let mut e = d.clone();
                            e.payload = Some(b"another payload".to_vec());
                            ck.differs(l, "Sign.verify[payload']", run(&e, aad, None), created_with);
                        }
                        Some(p) => ck.differs(l, "Sign.verify_detached[payload']", run(&d, aad, Some(&pls[other(p)])), created_with),
                    }
                    for p2 in other_protected(&d.protected) {
                        let mut e = d.clone();
                        e.protected = p2;
                        ck.differs(l, "Sign.verify[body protected']", run(&e, aad, pay), created_with);
                    }
                    for p2 in other_protected(&d.signatures[*idx].protected) {
                        let mut e = d.clone();
                        e.signatures[*idx].protected = p2;
                        ck.differs(l, "Sign.verify[signer protected']", run(&e, aad, pay), created_with);
                    }
                    // another signer's protected header must NOT matter
                    if d.signatures.len() > 1 {
                        let j = (*idx + 1) % d.signatures.len();
                        if let Some(p2) = other_protected(&d.signatures[j].protected).into_iter().next() {
                            let mut e = d.clone();
                            e.signatures[j].protected = p2;
                            ck.same(l, "Sign.verify[other signer's protected changed]", run(&e, aad, pay), &stored, created_with);
                        }
                    }
                }
            }
        }
        Built::Mac(v) => {
            let c = fresh_main.unwrap();
            let created_with = &records[c.call].1;
            let stored = closure_output(c.call);
            for (form, d) in wire_forms!(coset::CoseMac, v, tagged) {
                let aad = &aads[c.aad];
                ck.same(l, &format!("Mac.verify_tag[{}]", form), verify2(&|f| d.verify_tag(aad, |s, x| f(s, x))), &stored, created_with);
                ck.differs(l, "Mac.verify_tag[aad']", verify2(&|f| d.verify_tag(&aads[other(c.aad)], |s, x| f(s, x))), created_with);
                let mut e = d.clone();
                e.payload = Some(b"another payload".to_vec());
                ck.differs(l, "Mac.verify_tag[payload']", verify2(&|f| e.verify_tag(aad, |s, x| f(s, x))), created_with);
                for p2 in other_protected(&d.protected) {
                    let mut e = d.clone();
                    e.protected = p2;
                    ck.differs(l, "Mac.verify_tag[protected']", verify2(&|f| e.verify_tag(aad, |s, x| f(s, x))), created_with);
                }
            }
        }
        Built::Mac0(v) => {
            let c = fresh_main.unwrap();
            let created_with = &records[c.call].1;
            let stored = closure_output(c.call);
            for (form, d) in wire_forms!(coset::CoseMac0, v, tagged) {
                let aad = &aads[c.aad];
                ck.same(l, &format!("Mac0.verify_tag[{}]", form), verify2(&|f| d.verify_tag(aad, |s, x| f(s, x))), &stored, created_with);
                ck.differs(l, "Mac0.verify_tag[aad']", verify2(&|f| d.verify_tag(&aads[other(c.aad)], |s, x| f(s, x))), created_with);
                let mut e = d.clone();
                e.payload = Some(b"another payload".to_vec());
                ck.differs(l, "Mac0.verify_tag[payload']", verify2(&|f| e.verify_tag(aad, |s, x| f(s, x))), created_with);
                for p2 in other_protected(&d.protected) {
                    let mut e = d.clone();
                    e.protected = p2;
                    ck.differs(l, "Mac0.verify_tag[protected']", verify2(&|f| e.verify_tag(aad, |s, x| f(s, x))), created_with);
                }
            }
        }
        Built::Encrypt(v) => {
            let c = fresh_main.unwrap();
            let created_with = &records[c.call].1;
            let stored = closure_output(c.call);
            for (form, d) in wire_forms!(coset::CoseEncrypt, v, tagged) {
                let aad = &aads[c.aad];
                ck.same(l, &format!("Encrypt.decrypt[{}]", form), decrypt2(&|f| d.decrypt(aad, |s, x| f(s, x))), &stored, created_with);
                ck.differs(l, "Encrypt.decrypt[aad']", decrypt2(&|f| d.decrypt(&aads[other(c.aad)], |s, x| f(s, x))), created_with);
                for p2 in other_protected(&d.protected) {
                    let mut e = d.clone();
                    e.protected = p2;
                    ck.differs(l, "Encrypt.decrypt[protected']", decrypt2(&|f| e.decrypt(aad, |s, x| f(s, x))), created_with);
                }
            }
        }
        Built::Encrypt0(v) => {
            let c = fresh_main.unwrap();
            let created_with = &records[c.call].1;
            let stored = closure_output(c.call);
            for (form, d) in wire_forms!(coset::CoseEncrypt0, v, tagged) {
                let aad = &aads[c.aad];
                ck.same(l, &format!("Encrypt0.decrypt[{}]", form), decrypt2(&|f| d.decrypt(aad, |s, x| f(s, x))), &stored, created_with);
                ck.differs(l, "Encrypt0.decrypt[aad']", decrypt2(&|f| d.decrypt(&aads[other(c.aad)], |s, x| f(s, x))), created_with);
                for p2 in other_protected(&d.protected) {
                    let mut e = d.clone();
                    e.protected = p2;
                    ck.differs(l, "Encrypt0.decrypt[protected']", decrypt2(&|f| e.decrypt(aad, |s, x| f(s, x))), created_with);
                }
            }
        }
        Built::Recipient(v) => {
            let c = fresh_main.unwrap();
            let created_with = &records[c.call].1;
            let stored = closure_output(c.call);
            let ctx = msgbuild::REC_CTX[c.ctx];
            for (form, d) in wire_forms!(coset::CoseRecipient, v) {
                let aad = &aads[c.aad];
                ck.same(l, &format!("Recipient.decrypt[{}]", form), decrypt2(&|f| d.decrypt(ctx, aad, |s, x| f(s, x))), &stored, created_with);
                ck.differs(l, "Recipient.decrypt[aad']", decrypt2(&|f| d.decrypt(ctx, &aads[other(c.aad)], |s, x| f(s, x))), created_with);
                ck.differs(l, "Recipient.decrypt[context']", decrypt2(&|f| d.decrypt(msgbuild::REC_CTX[(c.ctx + 1) % 3], aad, |s, x| f(s, x))), created_with);
                for p2 in other_protected(&d.protected) {
                    let mut e = d.clone();
                    e.protected = p2;
                    ck.differs(l, "Recipient.decrypt[protected']", decrypt2(&|f| e.decrypt(ctx, aad, |s, x| f(s, x))), created_with);
                }
            }
            // the plaintext reaches the creator untouched
            if let Some((Some(pt), _)) = records.get(c.call) {
                let _ = pt;
            }
        }
    }
}

pub fn explore(ex: &Ex) {
    let depth = ex.pick(2usize, 5, 8);
    let cap = ex.pick(20_000usize, 1_000_000, 20_000_000);
    for kind in msgbuild::ALL_KINDS {
        if kind == Kind::Signature {
            continue;
        }
        let ops = msgbuild::ops_of(kind);
        let name: &'static str = Box::leak(format!("c06.{:?}", kind).into_boxed_str());
        // COSE_Sign states do not merge (signers accumulate): it gets a smaller depth
        let d = if kind == Kind::Sign { ex.pick(2usize, 4, 5) } else { depth };
        let spec = Spec {
            pid: ex.pid,
            name,
            inits: vec![("new()".to_string(), msgbuild::new_msg(kind))],
            nops: ops.len(),
            op_name: &|i| format!("{:?}", ops[i]),
            step: &|m, i| msgbuild::step(m, &ops[i]),
            // creation bookkeeping is part of the state: it decides what must hold later
            key: &|m| format!("{:?}", m),
            expect: &|m| msgbuild::expect_debug(m),
            real: &|_init, hist| msgbuild::spec_real(kind, &ops, hist),
            on_state: Some(&|m: &Msg, _init, hist: &[usize], l: &mut Local| {
                let mut case = format!("{} new()", name);
                for h in hist {
                    case.push_str(" . ");
                    case.push_str(&format!("{:?}", ops[*h]));
                }
                check_state(ex.pid, kind, &ops, m, &case, hist, l);
            }),
        };
        bfs::run(ex.rep, &spec, d, cap);
    }
    ex.bound("c06", "depth", json!(depth));
}
