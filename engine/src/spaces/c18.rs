//! C18 — CWT claims sets and KDF contexts decode and encode per their definitions.

use super::{map_tree, Ex, Scale};
use crate::gen::{self, arr, b, bwrap, i, map, t, u};
use crate::mc::{odometer, par_partitions, Local, Report};
use crate::oracle::{Checks, Entry};
use crate::refcbor::{encodings, hex, DevOpts, Item, NULL, UNDEFINED};
use crate::refcose::Ty;
use serde_json::json;

pub const CHECKS: Checks = Checks { iff: true, fixed_point: true, ..Checks::NONE };

pub fn run(rep: &Report) -> u64 {
    rep.set_rule("C18: all ordered sequences of <= N (key,value) pairs from the claims alphabet as a claims set; all arrays of arity 0..4 over the party-info and supplementary-info slot alphabets; all KDF contexts of arity 0..7 over (algorithm x party x party x supp-pub x trailing) alphabets; encodings within d deviations; every accepted value is re-encoded and decoded again (encode side); non-trivial = must-accept or single-fault; distinct by bytes");
    rep.assume("reference rules (refcose::claims, kdf, party, supp_pub) transliterate RFC 8392 section 3/4 and RFC 8152 section 11.2");
    explore(&Ex::own(rep, CHECKS));
    1000
}

pub fn party_slot_alphabet() -> Vec<Item> {
    vec![b(b"\x01"), b(b""), NULL, UNDEFINED, u(7), i(-8), u(1 << 63), t("x"), arr(vec![])]
}

pub fn supp_slot_alphabet() -> Vec<Item> {
    vec![
        u(0),
        u(128),
        u(u64::MAX),
        i(-1),
        b(b""),
        bwrap(&map(vec![(u(1), i(-7))])),
        bwrap(&map(vec![(u(4), b(b""))])),
        b(b"other"),
        t("x"),
        NULL,
    ]
}

fn arrays_upto(ex: &Ex, space: &str, slots: &[Item], max: usize, ty: Ty) {
    let enc: Vec<Vec<u8>> = slots.iter().map(|s| s.det()).collect();
    ex.bound(space, "slot_alphabet", json!(slots.len()));
    ex.bound(space, "arity_max", json!(max));
    let arities: Vec<usize> = (0..=max).collect();
    par_partitions(ex.rep, arities, |n, l| {
        odometer(&vec![enc.len(); *n], |d| {
            let mut bytes = vec![0x80 | *n as u8];
            for x in d {
                bytes.extend_from_slice(&enc[*x]);
            }
            l.state(*n as u64);
            if *n == 3 {
                l.sample(|| json!({"space": space, "hex": hex(&bytes)}));
            }
            ex.decode(l, space, ty, Entry::Slice, &bytes);
        });
    });
}

pub fn party_reps() -> Vec<Item> {
    vec![
        arr(vec![NULL, NULL, NULL]),
        arr(vec![b(b"id"), b(b"nonce"), b(b"other")]),
        arr(vec![b(b""), i(-5), NULL]),
        arr(vec![NULL, u(1 << 63), NULL]),
        arr(vec![NULL, NULL]),
        arr(vec![u(1), NULL, NULL]),
        arr(vec![NULL, UNDEFINED, NULL]),
        NULL,
    ]
}

pub fn supp_reps() -> Vec<Item> {
    vec![
        arr(vec![u(128), b(b"")]),
        arr(vec![u(u64::MAX), bwrap(&map(vec![(u(1), i(-7))])), b(b"o")]),
        arr(vec![u(0), bwrap(&map(vec![]))]),
        arr(vec![i(-1), b(b"")]),
        arr(vec![u(128), bwrap(&map(vec![(u(4), b(b""))]))]),
        arr(vec![u(128)]),
        arr(vec![u(128), b(b""), u(1)]),
        map(vec![]),
    ]
}

pub fn explore(ex: &Ex) {
    super::short_strings(ex, "c18.bytes", &[(Ty::Claims, Entry::Slice), (Ty::Kdf, Entry::Slice), (Ty::Party, Entry::Slice), (Ty::SuppPub, Entry::Slice), (Ty::Timestamp, Entry::Slice)], ex.pick(1usize, 2, 3));
    // claims
    let pairs = gen::claims_pairs();
    let depth = ex.pick(2usize, 3, 4);
    map_tree(ex, "c18.claims", &pairs, depth, &|m, _d, l| {
        ex.decode(l, "c18.claims", Ty::Claims, Entry::Slice, m);
    });
    {
        let typed = vec![(u(1), t("iss")), (u(2), t("sub")), (u(3), t("aud")), (u(4), u(1)), (u(5), Item::float(1.5)), (u(6), i(-1)), (u(7), b(b"cti"))];
        let faults = vec![(u(1), u(1)), (u(7), t("x")), (u(4), t("1")), (u(10), u(0)), (i(-70001), u(0)), (NULL, u(1))];
        super::wide_maps(ex, "c18.wide", &|k| if k % 2 == 0 { (t(&format!("c{}", k)), u(k as u64)) } else { (i(-70000 - k as i128), b(b"v")) }, &typed, &faults, &|m, l| {
            ex.decode(l, "c18.wide", Ty::Claims, Entry::Slice, m);
        });
    }
    // every registered claim name (and its neighbours) x every value shape, alone and next to
    // another claim: only claims 1..7 are interpreted
    {
        use crate::refiana::Reg;
        let labels = super::registry_labels(&[Reg::CwtClaimName]);
        let kinds = super::kinds_plus();
        ex.bound("c18.registry", "labels_x_kinds", json!([labels.len(), kinds.len()]));
        par_partitions(ex.rep, labels, |lab, l| {
            for k in &kinds {
                for m in [map(vec![(lab.clone(), k.clone())]), map(vec![(lab.clone(), k.clone()), (t("z"), u(0))]), map(vec![(i(-70000), u(0)), (lab.clone(), k.clone())])] {
                    l.state(1);
                    ex.decode(l, "c18.registry", Ty::Claims, Entry::Slice, &m.det());
                }
            }
        });
    }
    for it in gen::kinds() {
        let mut l = Local::default();
        l.state(0);
        for ty in [Ty::Claims, Ty::Kdf, Ty::Party, Ty::SuppPub, Ty::Timestamp] {
            ex.decode(&mut l, "c18.kinds", ty, Entry::Slice, &it.det());
        }
        ex.rep.merge(l);
    }
    // party info, supplementary public info
    arrays_upto(ex, "c18.party", &party_slot_alphabet(), ex.pick(3, 4, 5), Ty::Party);
    arrays_upto(ex, "c18.supp_pub", &supp_slot_alphabet(), ex.pick(3, 4, 4), Ty::SuppPub);
    // kdf context
    let algs = vec![i(-7), t("x"), u(8), b(b"\x01"), i(-65537), u(1 << 63)];
    let parties = party_reps();
    let supps = supp_reps();
    let trailing = vec![b(b"priv"), b(b""), NULL, u(1)];
    let max_trailing = ex.pick(1usize, 3, 3);
    ex.bound("c18.kdf", "alphabets", json!({"alg": algs.len(), "party": parties.len(), "supp_pub": supps.len(), "trailing": trailing.len(), "trailing_slots_max": max_trailing}));
    let ea: Vec<Vec<u8>> = algs.iter().map(|x| x.det()).collect();
    let ep: Vec<Vec<u8>> = parties.iter().map(|x| x.det()).collect();
    let es: Vec<Vec<u8>> = supps.iter().map(|x| x.det()).collect();
    let et: Vec<Vec<u8>> = trailing.iter().map(|x| x.det()).collect();
    let parts: Vec<usize> = (0..algs.len()).collect();
    par_partitions(ex.rep, parts, |a, l| {
        for k in 0..=max_trailing {
            let mut rad = vec![ep.len(), ep.len(), es.len()];
            rad.extend(vec![et.len(); k]);
            odometer(&rad, |d| {
                let mut bytes = vec![0x80 | (4 + k) as u8];
                bytes.extend_from_slice(&ea[*a]);
                bytes.extend_from_slice(&ep[d[0]]);
                bytes.extend_from_slice(&ep[d[1]]);
                bytes.extend_from_slice(&es[d[2]]);
                for x in &d[3..] {
                    bytes.extend_from_slice(&et[*x]);
                }
                l.state((4 + k) as u64);
                if k == 1 {
                    l.sample(|| json!({"space": "c18.kdf", "hex": hex(&bytes)}));
                }
                ex.decode(l, "c18.kdf", Ty::Kdf, Entry::Slice, &bytes);
            });
        }
    });
    // short arities
    for n in 0..4usize {
        let mut l = Local::default();
        let all = [&ea[0], &ep[1], &ep[2], &es[0]];
        let mut bytes = vec![0x80 | n as u8];
        for x in &all[..n] {
            bytes.extend_from_slice(x);
        }
        l.state(n as u64);
        ex.decode(&mut l, "c18.kdf", Ty::Kdf, Entry::Slice, &bytes);
        ex.rep.merge(l);
    }
    // encodings
    let d = ex.pick(1usize, 1, 2);
    ex.bound("c18.encodings", "deviations_max", json!(d));
    let mut items: Vec<(Ty, Item)> = vec![
        (Ty::Kdf, arr(vec![i(-7), parties[1].clone(), parties[2].clone(), supps[1].clone(), b(b"p")])),
        (Ty::Kdf, arr(vec![t("a"), parties[0].clone(), parties[0].clone(), supps[0].clone()])),
        (Ty::Party, parties[1].clone()),
        (Ty::SuppPub, supps[1].clone()),
        (Ty::Claims, map(vec![(u(1), t("iss")), (u(4), u(1000)), (u(6), Item::float(1.5)), (u(7), b(b"id")), (i(-65537), u(1)), (t("x"), NULL)])),
    ];
    if ex.scale != Scale::Small {
        for a in &pairs {
            items.push((Ty::Claims, Item::Map(vec![a.clone()])));
        }
    }
    par_partitions(ex.rep, items, |(ty, it), l| {
        let dd = if matches!(it, Item::Map(x) if x.len() > 3) { 1 } else { d };
        for (lvl, e) in encodings(it, dd, &DevOpts::NO_BIGNUM) {
            l.state(lvl as u64);
            l.count(&format!("c18.encodings.deviations={}", lvl));
            ex.decode(l, "c18.encodings", *ty, Entry::Slice, &e.to_bytes());
        }
    });
}
