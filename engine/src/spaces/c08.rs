//! C08 — header maps: accepted iff well-formed, every field means what the wire said.

use crate::gen;
use crate::mc::{par_partitions, Local, Report, Tier};
use crate::oracle::{check_decode, Case, Checks, Entry};
use crate::refcbor::{encodings, DevOpts, Item};
use crate::refcose::Ty;
use serde_json::json;

pub const CHECKS: Checks = Checks { iff: true, ..Checks::NONE };

fn bstr_head(n: usize, out: &mut Vec<u8>) {
    if n < 24 {
        out.push(0x40 | n as u8)
    } else if n < 256 {
        out.push(0x58);
        out.push(n as u8)
    } else {
        out.push(0x59);
        out.extend_from_slice(&(n as u16).to_be_bytes())
    }
}

/// Offer one encoded header map to every carrier position.
pub fn offer_map(pid: &str, space: &str, map_bytes: &[u8], carriers: u8, checks: &Checks, l: &mut Local) {
    let mut c = |ty: Ty, entry: Entry, bytes: &[u8]| {
        check_decode(&Case { pid, space, ty, entry, bytes }, checks, l);
    };
    // standalone header
    c(Ty::Header, Entry::Slice, map_bytes);
    if carriers >= 3 {
        // unprotected header of a COSE_Sign1
        let mut v = vec![0x84, 0x40];
        v.extend_from_slice(map_bytes);
        v.extend_from_slice(&[0xf6, 0x40]);
        c(Ty::Sign1, Entry::Slice, &v);
        // protected header of a COSE_Sign1
        let mut v = vec![0x84];
        bstr_head(map_bytes.len(), &mut v);
        v.extend_from_slice(map_bytes);
        v.extend_from_slice(&[0xa0, 0xf6, 0x40]);
        c(Ty::Sign1, Entry::Slice, &v);
    }
    if carriers >= 5 {
        c(Ty::Protected, Entry::Slice, map_bytes);
        let mut v = vec![];
        bstr_head(map_bytes.len(), &mut v);
        v.extend_from_slice(map_bytes);
        c(Ty::Protected, Entry::Bstr, &v);
    }
}

pub fn run(rep: &Report) -> u64 {
    let pairs = gen::header_pairs();
    let enc: Vec<Vec<u8>> = pairs.iter().map(|(k, v)| [k.det(), v.det()].concat()).collect();
    let depth = rep.tier.pick(3usize, 4usize);
    rep.bound("map_entries_max", json!(depth));
    rep.bound("pair_alphabet", json!(pairs.len()));
    rep.bound("carriers", json!(["Header", "Sign1.unprotected", "Sign1.protected", "ProtectedHeader::from_slice", "ProtectedHeader::from_cbor_bstr"]));
    rep.set_rule("all ordered sequences (with repetition) of <= N (label,value) pairs from the header pair alphabet, each a complete header map, offered at every carrier position; non-trivial = reference verdict is must-accept or rejects for exactly one broken rule; distinct by input bytes");

    // tree: node = sequence of pair indices
    let mut parts: Vec<Option<usize>> = vec![None];
    parts.extend((0..pairs.len()).map(Some));
    let enc_ref = &enc;
    par_partitions(rep, parts, |p, l| {
        let mut seq: Vec<usize> = Vec::new();
        match p {
            None => {
                l.state(0);
                l.sample(|| json!({"space": "c08.maps", "map": "{}", "hex": "a0"}));
                offer_map("C08", "c08.maps", &[0xa0], 5, &CHECKS, l);
            }
            Some(first) => {
                seq.push(*first);
                rec(enc_ref, &mut seq, depth, l);
            }
        }
    });

    // encodings of small maps
    let d = rep.tier.pick(1usize, 2usize);
    rep.bound("encoding_deviations_max", json!(d));
    let small = gen::header_pairs_small();
    let mut maps: Vec<Item> = vec![Item::Map(vec![])];
    for a in &pairs {
        maps.push(Item::Map(vec![a.clone()]));
    }
    for a in &small {
        for b in &small {
            maps.push(Item::Map(vec![a.clone(), b.clone()]));
        }
    }
    par_partitions(rep, maps, |m, l| {
        for (lvl, e) in encodings(m, d, &DevOpts::NO_BIGNUM) {
            l.state(lvl as u64);
            l.count(&format!("encodings.deviations={}", lvl));
            let b = e.to_bytes();
            if lvl == 1 {
                l.sample(|| json!({"space": "c08.encodings", "map": format!("{:?}", m), "hex": crate::refcbor::hex(&b)}));
            }
            offer_map("C08", "c08.encodings", &b, 3, &CHECKS, l);
        }
    });
    if rep.tier == Tier::Thorough {
        // bignum-encoded integers: verdict unspecified, but must not crash
        let ms: Vec<Item> = pairs.iter().map(|a| Item::Map(vec![a.clone()])).collect();
        par_partitions(rep, ms, |m, l| {
            for (lvl, e) in encodings(m, 1, &DevOpts::ALL) {
                l.state(lvl as u64);
                offer_map("C08", "c08.encodings", &e.to_bytes(), 3, &CHECKS, l);
            }
        });
    }
    1000
}

fn rec(enc: &[Vec<u8>], seq: &mut Vec<usize>, depth: usize, l: &mut Local) {
    let mut bytes = vec![0xa0 | seq.len() as u8];
    for i in seq.iter() {
        bytes.extend_from_slice(&enc[*i]);
    }
    l.state(seq.len() as u64);
    if seq.len() == 2 {
        l.sample(|| json!({"space": "c08.maps", "pairs": seq.clone(), "hex": crate::refcbor::hex(&bytes)}));
    }
    offer_map("C08", "c08.maps", &bytes, if seq.len() <= 2 { 5 } else { 3 }, &CHECKS, l);
    if seq.len() < depth {
        for i in 0..enc.len() {
            seq.push(i);
            rec(enc, seq, depth, l);
            seq.pop();
        }
    }
}
