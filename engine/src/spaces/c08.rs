//! C08 — header maps: accepted iff well-formed, every field means what the wire said.

use super::{header_carriers, map_tree, Ex, Scale};
use crate::gen;
use crate::mc::{par_partitions, Report};
use crate::oracle::{Checks, Entry};
use crate::refcbor::{encodings, hex, DevOpts, Item};
use crate::refcose::Ty;
use serde_json::json;

pub const CHECKS: Checks = Checks { iff: true, ..Checks::NONE };

pub fn run(rep: &Report) -> u64 {
    rep.set_rule("C08: all ordered sequences (with repetition) of <= N (label,value) pairs from the header pair alphabet, each node of the tree a complete header map, offered at every carrier position, plus all encodings within d deviations of small maps; non-trivial = reference verdict is must-accept or rejects for exactly one broken rule; distinct by input bytes");
    rep.assume("reference header rules (refcose::header_map) are a correct transliteration of RFC 8152 section 3.1 and the property statement");
    explore(&Ex::own(rep, CHECKS));
    1000
}

pub fn explore(ex: &Ex) {
    super::short_strings(ex, "c08.bytes", &[(Ty::Header, Entry::Slice), (Ty::Protected, Entry::Slice), (Ty::Protected, Entry::Bstr)], ex.pick(1usize, 2, 3));
    let pairs = gen::header_pairs();
    let depth = ex.pick(2usize, 3, 4);
    map_tree(ex, "c08.maps", &pairs, depth, &|map, d, l| {
        let all = d <= 1 || (d == 2 && ex.scale != Scale::Small);
        for (_name, ty, bytes) in header_carriers(map, all) {
            ex.decode(l, "c08.maps", ty, Entry::Slice, &bytes);
        }
        if d <= 2 {
            ex.decode(l, "c08.maps", Ty::Protected, Entry::Bstr, &super::wrap_bstr(map));
        }
    });

    // every registered header label (and its neighbours) x every value shape: nothing but the
    // typed labels 1..7 is interpreted, whatever the registry says about the parameter
    {
        use crate::refiana::Reg;
        let labels = super::registry_labels(&[Reg::HeaderParameter, Reg::HeaderAlgorithmParameter]);
        let kinds = super::kinds_plus();
        ex.bound("c08.registry", "labels_x_kinds", json!([labels.len(), kinds.len()]));
        par_partitions(ex.rep, labels, |lab, l| {
            for k in &kinds {
                for m in [gen::map(vec![(lab.clone(), k.clone())]), gen::map(vec![(gen::u(1), gen::i(-7)), (lab.clone(), k.clone())]), gen::map(vec![(lab.clone(), k.clone()), (gen::t("z"), gen::u(0))])] {
                    let bytes = m.det();
                    l.state(1);
                    for (_n, ty, b) in header_carriers(&bytes, false) {
                        ex.decode(l, "c08.registry", ty, Entry::Slice, &b);
                    }
                    ex.decode(l, "c08.registry", Ty::Protected, Entry::Bstr, &super::wrap_bstr(&bytes));
                }
            }
        });
    }
    // distinct labels never collide: every ordered pair of different integer labels from [-70, 70]
    // and the head-width / word-size boundaries (a duplicate detector that hashes, masks or truncates
    // labels would confuse some pair), opaque values, as a header map and as protected bytes
    {
        use gen::{i, u};
        let mut labs: Vec<i128> = (-70..=70).filter(|v| !(1..=7).contains(v)).collect();
        for k in [7u32, 8, 15, 16, 31, 32, 63] {
            let p = 1i128 << k;
            labs.extend([p - 1, p, -p, -p - 1, -p + 1]);
        }
        labs.sort();
        labs.dedup();
        labs.retain(|v| *v >= i64::MIN as i128 && *v <= i64::MAX as i128);
        ex.bound("c08.distinct", "labels", json!(labs.len()));
        let all = labs.clone();
        par_partitions(ex.rep, labs, |a, l| {
            for b2 in &all {
                if a == b2 {
                    continue;
                }
                l.state(1);
                let m = gen::map(vec![(i(*a), u(0)), (i(*b2), u(1))]).det();
                ex.decode(l, "c08.distinct", Ty::Header, Entry::Slice, &m);
                ex.decode(l, "c08.distinct", Ty::Protected, Entry::Bstr, &super::wrap_bstr(&m));
            }
        });
    }
    // wide maps (size thresholds): many extras around all typed fields, one fault at three positions
    {
        use gen::{b, i, t, u};
        let typed = vec![(u(1), i(-7)), (u(2), gen::arr(vec![u(4)])), (u(3), t("a/b")), (u(4), b(b"kid")), (u(5), b(b"iv")), (u(7), gen::arr(vec![gen::sig_valid(), gen::sig_valid2()]))];
        let faults = vec![(u(4), b(b"")), (u(6), b(b"p")), (u(1), u(8)), (u(1000), u(0)), (crate::refcbor::NULL, u(1)), (u(3), t(&"x".repeat(300)))];
        super::wide_maps(ex, "c08.wide", &|k| if k % 3 == 0 { (t(&format!("x{}", k)), u(k as u64)) } else if k % 3 == 1 { (u(1000 + k as u64), b(b"v")) } else { (i(-1000 - k as i128), crate::refcbor::NULL) }, &typed, &faults, &|m, l| {
            for (_n, ty, bytes) in header_carriers(m, false) {
                ex.decode(l, "c08.wide", ty, Entry::Slice, &bytes);
            }
        });
        // many counter signatures (list width is not nesting depth)
        for n in [9usize, 17, 33, 65] {
            let mut l = crate::mc::Local::default();
            let sigs: Vec<Item> = (0..n).map(|k| if k % 2 == 0 { gen::sig_valid() } else { gen::sig_valid2() }).collect();
            let m = gen::map(vec![(u(7), gen::arr(sigs))]).det();
            l.state(n as u64);
            for (_n, ty, bytes) in header_carriers(&m, n <= 17) {
                ex.decode(&mut l, "c08.long", ty, Entry::Slice, &bytes);
            }
            ex.rep.merge(l);
        }
        // long strings in typed fields
        for n in [23usize, 24, 255, 256, 65536] {
            let mut l = crate::mc::Local::default();
            for m in [
                gen::map(vec![(u(3), t(&format!("{}/{}", "a".repeat(n), "b")))]),
                gen::map(vec![(u(3), t(&"a".repeat(n)))]),
                gen::map(vec![(u(4), b(&gen::pattern(n)))]),
                gen::map(vec![(u(1), t(&"z".repeat(n)))]),
                gen::map(vec![(u(2), gen::arr((0..n.min(300)).map(|_| u(4)).collect()))]),
            ] {
                l.state(1);
                ex.decode(&mut l, "c08.long", Ty::Header, Entry::Slice, &m.det());
            }
            ex.rep.merge(l);
        }
    }
    // every encoding within d deviations of small maps
    let d = ex.pick(1usize, 1, 2);
    ex.bound("c08.encodings", "deviations_max", json!(d));
    let small = gen::header_pairs_small();
    let mut maps: Vec<Item> = vec![Item::Map(vec![])];
    for a in &pairs {
        maps.push(Item::Map(vec![a.clone()]));
    }
    if ex.scale != Scale::Small {
        for a in &small {
            for b in &small {
                maps.push(Item::Map(vec![a.clone(), b.clone()]));
            }
        }
    }
    for h in gen::header_contents() {
        maps.push(h);
    }
    par_partitions(ex.rep, maps, |m, l| {
        let dd = if matches!(m, Item::Map(x) if x.len() > 3) { 1 } else { d };
        for (lvl, e) in encodings(m, dd, &DevOpts::NO_BIGNUM) {
            l.state(lvl as u64);
            l.count(&format!("c08.encodings.deviations={}", lvl));
            let b = e.to_bytes();
            if lvl == 1 {
                l.sample(|| json!({"space": "c08.encodings", "map": format!("{:?}", m), "hex": hex(&b)}));
            }
            for (_n, ty, bytes) in header_carriers(&b, false) {
                ex.decode(l, "c08.encodings", ty, Entry::Slice, &bytes);
            }
        }
    });
    // bignum-encoded integers: verdict unspecified, but they must not crash and must stay consistent
    let ms: Vec<Item> = pairs.iter().map(|a| Item::Map(vec![a.clone()])).collect();
    par_partitions(ex.rep, ms, |m, l| {
        for (lvl, e) in encodings(m, 1, &DevOpts::ALL) {
            if e.has_bignum_form() {
                l.state(lvl as u64);
                l.count("c08.encodings.bignum");
                ex.decode(l, "c08.bignum", Ty::Header, Entry::Slice, &e.to_bytes());
            }
        }
    });
}
