//! C01 — untrusted bytes never crash decoding or the processing that follows it.
//! Everything that may abort (stack overflow, allocation failure, abort) runs in child processes.

use super::{c07, c08, c09, c10, c12, c14, c15, c18, wrap_bstr, Ex, Scale};
use crate::mc::{Local, Report, Tier, Viol};
use crate::oracle::{subject_decode, Checks, Entry};
use crate::refcbor::hex;
use crate::refcose::{all_types, Ty, TAGGED_TYPES};
use crate::subject::Outcome;
use rayon::prelude::*;
use serde_json::{json, Value as Json};
use std::process::Command;
use std::time::Instant;

pub const CHECKS: Checks = Checks { followups: true, ..Checks::NONE };

pub fn run(rep: &Report) -> u64 {
    rep.set_rule("C01: (1) every byte string of length 0..3 (quick) / 0..4 (thorough) into every byte-level entry point (from_slice of 30 types, from_tagged_slice of 6, ProtectedHeader::from_cbor_bstr); (2) every structured input of the spaces of C07/C08/C09/C10/C12/C14/C15/C18; (3) on every accepted value: to_vec, to_tagged_vec, to_cbor_value, clone, ==, Debug, drop and every to-be-signed / verify / MAC / decrypt helper with AAD and detached payload in {empty, 1 byte, 300 bytes} (documented panics excluded); (4) ladders n = 1..64 then doubling up to 64 KiB (quick) / 1 MiB (thorough) of input over every cycle of the decoder's recursion graph (84 words over the four header->counter-signature->header edges, recipient-in-recipient, array/map/tag nesting) from every entry type that can contain it, and over width families (n signatures, recipients, extras, crit entries, key_ops, claims, keys, chunks, priv-info strings, declared-but-absent lengths), each rung in a child process on the 8 MiB main stack and on a 2 MiB thread; all of it for the crate built without and with the `std` feature. Oracle: child exits normally, no panic, Ok or Err; peak heap <= 1 KiB/input byte + 1 MiB, total allocated <= 4 KiB/byte + 1 MiB, wall <= 10 s/MiB + 2 s. non-trivial = accepted inputs and ladder rungs; distinct by (entry point, bytes)");
    rep.assume("child processes inherit the default 8 MiB main-thread stack (ulimit -s) and std::thread's default 2 MiB stack stands for 'an ordinary thread stack'");
    let bins = binaries();
    rep.bound("c01.configurations", json!(bins.iter().map(|(n, _)| n.clone()).collect::<Vec<_>>()));
    let mut l = Local::default();
    for (cfg, bin) in &bins {
        let first = cfg == "no_std";
        // (1) byte sweep
        let maxlen = match (rep.tier, first) {
            (Tier::Quick, true) => 3,
            (Tier::Quick, false) => 2,
            (Tier::Thorough, true) => 4,
            (Tier::Thorough, false) => 3,
        };
        rep.bound(&format!("c01.sweep.{}.max_len", cfg), json!(maxlen));
        sweep(rep, cfg, bin, maxlen, &mut l);
        // (2)+(3) structured inputs with follow-ups (quick tier: first configuration only; the
        // `std` feature adds an Error impl and nothing to the decoding paths)
        if first || rep.tier == Tier::Thorough {
            structured(rep, cfg, bin, &mut l);
        }
        // (4) ladders (the second configuration runs the doubling rungs only in the quick tier)
        ladders(rep, cfg, bin, first || rep.tier == Tier::Thorough, &mut l);
    }
    rep.merge(l);
    1000
}

/// (configuration name, engine binary built against that configuration)
fn binaries() -> Vec<(String, String)> {
    let me = std::env::current_exe().unwrap().to_string_lossy().to_string();
    let mut v = vec![(if cfg!(feature = "subject-std") { "std" } else { "no_std" }.to_string(), me)];
    if let Ok(other) = std::env::var("VERIF_STD_BIN") {
        if std::path::Path::new(&other).exists() {
            v.push(("std".to_string(), other));
        }
    }
    v
}

// ---------------------------------------------------------------------------------------------
// Child plumbing

fn local_to_json(l: &Local) -> Json {
    json!({
        "states": l.states, "transitions": l.transitions, "evaluations": l.evaluations, "impl_checked": l.impl_checked,
        "nontrivial": l.nontrivial.len() as u64 + l.nontrivial_extra,
        "counters": l.counters,
        "samples": l.samples,
        "viols": l.viols.iter().map(|v| json!({"key": v.key, "space": v.space, "case": v.case, "direct": v.direct, "expected": v.expected, "observed": v.observed})).collect::<Vec<_>>(),
    })
}

fn merge_json(l: &mut Local, j: &Json, tag: &str) {
    l.states += j["states"].as_u64().unwrap_or(0);
    l.transitions += j["transitions"].as_u64().unwrap_or(0);
    l.evaluations += j["evaluations"].as_u64().unwrap_or(0);
    l.impl_checked += j["impl_checked"].as_u64().unwrap_or(0);
    // children explore disjoint sub-spaces: their distinct non-trivial cases add up
    l.nontrivial_extra += j["nontrivial"].as_u64().unwrap_or(0);
    let _ = tag;
    if let Some(c) = j["counters"].as_object() {
        for (k, v) in c {
            l.add(&format!("{}.{}", tag, k), v.as_u64().unwrap_or(0));
        }
    }
    if let Some(s) = j["samples"].as_array() {
        for x in s {
            l.sample(|| x.clone());
        }
    }
    if let Some(vs) = j["viols"].as_array() {
        for v in vs {
            l.viol(Viol {
                key: v["key"].as_str().unwrap_or("").to_string(),
                space: v["space"].as_str().unwrap_or("").to_string(),
                case: v["case"].as_str().unwrap_or("").to_string(),
                direct: if v["direct"].is_null() { None } else { Some(v["direct"].clone()) },
                expected: v["expected"].as_str().unwrap_or("").to_string(),
                observed: v["observed"].as_str().unwrap_or("").to_string(),
            });
        }
    }
}

struct ChildOut {
    status: String,
    ok: bool,
    json: Option<Json>,
    stderr_tail: String,
    ms: u128,
}

fn run_child(bin: &str, args: &[String], timeout_s: u64) -> ChildOut {
    let t0 = Instant::now();
    let mut cmd = Command::new("timeout");
    cmd.arg("-s").arg("KILL").arg(format!("{}", timeout_s)).arg(bin).arg("child");
    for a in args {
        cmd.arg(a);
    }
    cmd.env("RUST_BACKTRACE", "0");
    match cmd.output() {
        Ok(o) => {
            let out = String::from_utf8_lossy(&o.stdout).to_string();
            let json = out.lines().rev().find_map(|l| serde_json::from_str::<Json>(l).ok());
            let err = String::from_utf8_lossy(&o.stderr).to_string();
            let tail: String = err.lines().rev().take(3).collect::<Vec<_>>().join(" | ");
            let status = match o.status.code() {
                Some(c) => format!("exit code {}", c),
                None => {
                    use std::os::unix::process::ExitStatusExt;
                    format!("killed by signal {:?}", o.status.signal())
                }
            };
            ChildOut { ok: o.status.code() == Some(0), status, json, stderr_tail: tail, ms: t0.elapsed().as_millis() }
        }
        Err(e) => ChildOut { ok: false, status: format!("spawn failed: {}", e), json: None, stderr_tail: String::new(), ms: 0 },
    }
}

fn died(cfg: &str, what: &str, case: String, c: &ChildOut) -> Viol {
    Viol {
        key: format!("C01:process-died:{}", what),
        space: format!("c01.{}", cfg),
        case,
        direct: None,
        expected: "child process exits normally (decoding returns Ok or Err)".into(),
        observed: format!("{}; stderr: {}", c.status, crate::mc::truncate(&c.stderr_tail, 300)),
    }
}

// ---------------------------------------------------------------------------------------------
// (1) all short byte strings

/// Entry points for the longest strings of the thorough sweep: every conversion function once
/// (the twelve registry-label instantiations share two generic functions: two representatives).
pub fn entry_points_reduced() -> Vec<(Ty, Entry)> {
    let mut seen_reg = 0;
    entry_points()
        .into_iter()
        .filter(|(t, _)| match t {
            Ty::RegLabel(rt) => {
                let keep = (rt.with_private && rt.reg == crate::refiana::Reg::Algorithm) || (!rt.with_private && rt.reg == crate::refiana::Reg::KeyType);
                if keep {
                    seen_reg += 1;
                }
                keep
            }
            _ => true,
        })
        .collect()
}

pub fn entry_points() -> Vec<(Ty, Entry)> {
    let mut v: Vec<(Ty, Entry)> = all_types().into_iter().map(|t| (t, Entry::Slice)).collect();
    for t in TAGGED_TYPES {
        v.push((t, Entry::Tagged));
    }
    v.push((Ty::Protected, Entry::Bstr));
    v
}

fn sweep(rep: &Report, cfg: &str, bin: &str, maxlen: usize, l: &mut Local) {
    let eps = entry_points();
    rep.bound("c01.sweep.entry_points", json!(eps.len()));
    let jobs: Vec<(u16, u16)> = (0..64u16).map(|k| (k * 4, k * 4 + 4)).collect();
    let outs: Vec<((u16, u16), ChildOut)> = jobs.par_iter().map(|(lo, hi)| ((*lo, *hi), run_child(bin, &["sweep".into(), maxlen.to_string(), lo.to_string(), hi.to_string()], 3600))).collect();
    for ((lo, hi), c) in outs {
        match (&c.json, c.ok) {
            (Some(j), true) => merge_json(l, j, &format!("sweep.{}", cfg)),
            _ => l.viol(died(cfg, "sweep", format!("sweep of all strings of length <= {} with first byte in [{:#04x},{:#04x})", maxlen, lo, hi), &c)),
        }
    }
}

pub fn child_sweep(maxlen: usize, lo: u16, hi: u16) -> i32 {
    let eps_full = entry_points();
    let eps_reduced = entry_points_reduced();
    let mut l = Local::default();
    let checks = Checks::NONE;
    let mut visit = |bytes: &[u8], l: &mut Local| {
        l.state(bytes.len() as u64);
        let eps = if bytes.len() >= 4 { &eps_reduced } else { &eps_full };
        for (ty, entry) in eps {
            l.evaluations += 1;
            l.impl_checked += 1;
            match subject_decode(*ty, *entry, bytes) {
                Outcome::Panic(p) => l.viol(Viol {
                    key: format!("C01:panic:{}:{}", crate::oracle::ty_name(*ty), entry.name()),
                    space: "c01.sweep".into(),
                    case: format!("{} {} {}", crate::oracle::ty_name(*ty), entry.name(), hex(bytes)),
                    direct: Some(json!({"kind": "decode", "ty": crate::oracle::ty_name(*ty), "entry": entry.name(), "hex": hex(bytes), "space": "c01.sweep"})),
                    expected: "Ok or Err".into(),
                    observed: p,
                }),
                Outcome::Ok(v) => {
                    l.count("accepted");
                    // every (entry point, string) is enumerated exactly once
                    l.nontrivial_extra += 1;
                    if bytes.len() <= 2 || l.counters.get("followups").copied().unwrap_or(0) < 200_000 {
                        l.count("followups");
                        let case = crate::oracle::Case { pid: "C01", space: "c01.sweep", ty: *ty, entry: *entry, bytes };
                        crate::oracle::followups(&case, &v, l);
                    }
                    let _ = &checks;
                }
                Outcome::Err(_) => {}
            }
        }
    };
    if lo == 0 {
        visit(&[], &mut l);
    }
    let mut buf = vec![0u8; maxlen];
    for first in lo..hi {
        buf[0] = first as u8;
        for len in 1..=maxlen {
            // all strings of this length with this first byte
            let n = len - 1;
            let total: u64 = 1u64 << (8 * n);
            for x in 0..total {
                for k in 0..n {
                    buf[1 + k] = (x >> (8 * (n - 1 - k))) as u8;
                }
                visit(&buf[..len], &mut l);
            }
        }
    }
    l.sample(|| json!({"space": "c01.sweep", "first_bytes": [lo, hi], "max_len": maxlen, "entry_points": eps_full.len(), "entry_points_for_len_4": eps_reduced.len()}));
    println!("{}", local_to_json(&l));
    0
}

// ---------------------------------------------------------------------------------------------
// (2) + (3) structured inputs, follow-ups

fn structured(rep: &Report, cfg: &str, bin: &str, l: &mut Local) {
    let scale = match rep.tier {
        Tier::Quick => "small",
        Tier::Thorough => "quick",
    };
    let c = run_child(bin, &["structured".into(), scale.into()], 7200);
    match (&c.json, c.ok) {
        (Some(j), true) => merge_json(l, j, &format!("structured.{}", cfg)),
        _ => l.viol(died(cfg, "structured", format!("structured spaces at scale {}", scale), &c)),
    }
}

pub fn child_structured(scale: &str) -> i32 {
    let rep = Report::new("C01", Tier::Quick);
    let scale = if scale == "quick" { Scale::Quick } else { Scale::Small };
    let ex = Ex { rep: &rep, pid: "C01", checks: CHECKS, scale };
    c08::explore(&ex);
    c09::explore(&ex);
    c10::explore(&ex);
    c12::explore(&ex);
    c14::explore(&ex);
    c15::explore(&ex);
    c18::explore(&ex);
    c07::families(&ex);
    let l = rep.take();
    println!("{}", local_to_json(&l));
    0
}

// ---------------------------------------------------------------------------------------------
// (4) ladders

const EDGES: [&str; 4] = ["sp", "su", "ap", "au"];

/// Wrap header map `inner` in one more level through one of the four edges:
/// s = single counter-signature, a = array of one; p = via the protected bstr, u = via unprotected.
fn wrap_edge(edge: &str, inner: &[u8]) -> Vec<u8> {
    let sig = match &edge[1..] {
        "p" => [&[0x83u8][..], &wrap_bstr(inner), &[0xa0, 0x40]].concat(),
        _ => [&[0x83u8, 0x40][..], inner, &[0x40]].concat(),
    };
    match &edge[..1] {
        "s" => [&[0xa1u8, 0x07][..], &sig].concat(),
        _ => [&[0xa1u8, 0x07, 0x81][..], &sig].concat(),
    }
}

/// Linear-time construction of deeply nested inputs: pieces are collected as (prefix, suffix) pairs
/// from the inside out; the total length so far is all a bstr head needs.
pub struct Nester {
    core: Vec<u8>,
    prefixes: Vec<Vec<u8>>,
    suffixes: Vec<Vec<u8>>,
    len: usize,
}

impl Nester {
    pub fn new(core: &[u8]) -> Nester {
        Nester { core: core.to_vec(), prefixes: Vec::new(), suffixes: Vec::new(), len: core.len() }
    }
    pub fn len(&self) -> usize {
        self.len
    }
    pub fn wrap(&mut self, prefix: &[u8], suffix: &[u8]) {
        self.len += prefix.len() + suffix.len();
        self.prefixes.push(prefix.to_vec());
        self.suffixes.push(suffix.to_vec());
    }
    /// Wrap the current content into a byte string.
    pub fn wrap_bstr(&mut self) {
        let mut head = Vec::new();
        super::bstr_head(self.len, &mut head);
        self.wrap(&head, &[]);
    }
    /// One more level through one of the four header -> counter-signature -> header edges.
    pub fn wrap_edge(&mut self, edge: &str) {
        if &edge[1..] == "p" {
            self.wrap_bstr();
            self.wrap(&[0x83], &[0xa0, 0x40]);
        } else {
            self.wrap(&[0x83, 0x40], &[0x40]);
        }
        if &edge[..1] == "s" {
            self.wrap(&[0xa1, 0x07], &[]);
        } else {
            self.wrap(&[0xa1, 0x07, 0x81], &[]);
        }
    }
    pub fn finish(self) -> Vec<u8> {
        let mut out = Vec::with_capacity(self.len);
        for p in self.prefixes.iter().rev() {
            out.extend_from_slice(p);
        }
        out.extend_from_slice(&self.core);
        for s in self.suffixes.iter() {
            out.extend_from_slice(s);
        }
        out
    }
}

/// The linear-time nester builds the same bytes as the straightforward recursive wrapper.
pub fn selftest() -> Result<usize, String> {
    let mut n = 0;
    for w in edge_words() {
        for depth in [1usize, 2, 7, 30, 300] {
            let mut plain = vec![0xa0u8];
            let mut nest = Nester::new(&[0xa0]);
            for i in 0..depth {
                let e = w[(depth - 1 - i) % w.len()];
                plain = wrap_edge(e, &plain);
                nest.wrap_edge(e);
            }
            if nest.len() != plain.len() || nest.finish() != plain {
                return Err(format!("nester differs from wrap_edge for {:?} depth {}", w, depth));
            }
            n += 1;
        }
    }
    Ok(n)
}

/// All words of length <= 3 over the four edges.
pub fn edge_words() -> Vec<Vec<&'static str>> {
    let mut v = Vec::new();
    for a in EDGES {
        v.push(vec![a]);
        for b in EDGES {
            v.push(vec![a, b]);
            for c in EDGES {
                v.push(vec![a, b, c]);
            }
        }
    }
    v
}

fn uint_head(major: u8, n: u64) -> Vec<u8> {
    let mut v = Vec::new();
    let m = major << 5;
    if n < 24 {
        v.push(m | n as u8);
    } else if n <= 0xff {
        v.push(m | 24);
        v.push(n as u8);
    } else if n <= 0xffff {
        v.push(m | 25);
        v.extend_from_slice(&(n as u16).to_be_bytes());
    } else if n <= 0xffff_ffff {
        v.push(m | 26);
        v.extend_from_slice(&(n as u32).to_be_bytes());
    } else {
        v.push(m | 27);
        v.extend_from_slice(&n.to_be_bytes());
    }
    v
}

/// Family generators: name -> (entry points, input for size parameter n).
pub fn family(name: &str, n: usize) -> Option<(Vec<(Ty, Entry)>, Vec<u8>)> {
    family_around(name, n, &[0xa0])
}

/// `family` with the innermost header map of the `depth` families replaced by `core`.
pub fn family_around(name: &str, n: usize, core: &[u8]) -> Option<(Vec<(Ty, Entry)>, Vec<u8>)> {
    let header_entries = |h: &[u8]| -> Vec<(Ty, Entry, Vec<u8>)> {
        vec![
            (Ty::Header, Entry::Slice, h.to_vec()),
            (Ty::Sign1, Entry::Slice, [&[0x84u8][..], &wrap_bstr(h), &[0xa0, 0xf6, 0x40]].concat()),
            (Ty::Sign1, Entry::Slice, [&[0x84u8, 0x40][..], h, &[0xf6, 0x40]].concat()),
            (Ty::Protected, Entry::Bstr, wrap_bstr(h)),
            (Ty::Encrypt0, Entry::Tagged, [&[0xd0u8, 0x83][..], &wrap_bstr(h), &[0xa0, 0xf6]].concat()),
        ]
    };
    let _ = header_entries;
    let parts: Vec<&str> = name.split(':').collect();
    match parts[0] {
        // depth: a word over the four edges pumped n times around {}, offered through carrier k
        "depth" => {
            let word: Vec<&str> = parts[1].split('-').collect();
            let carrier: usize = parts[2].parse().ok()?;
            let mut nest = Nester::new(core);
            for i in 0..n {
                nest.wrap_edge(word[(n - 1 - i) % word.len()]);
            }
            let h = nest.finish();
            let (ty, entry, bytes) = header_entries(&h).into_iter().nth(carrier)?;
            Some((vec![(ty, entry)], bytes))
        }
        // u levels of unprotected nesting, then one hop through a protected bstr, pumped n times:
        // each bstr hop gives the CBOR parser a fresh recursion budget
        "depthmix" => {
            let upl: usize = parts[1].parse().ok()?;
            let carrier: usize = parts[2].parse().ok()?;
            let mut nest = Nester::new(&[0xa0]);
            for _ in 0..n {
                nest.wrap_edge("sp");
                for k in 0..upl {
                    nest.wrap_edge(if k % 2 == 0 { "su" } else { "au" });
                }
            }
            let h = nest.finish();
            let (ty, entry, bytes) = header_entries(&h).into_iter().nth(carrier)?;
            Some((vec![(ty, entry)], bytes))
        }
        "recipients" => {
            // recipient in recipient, n deep
            let mut nest = Nester::new(&[0x83, 0x40, 0xa0, 0xf6]);
            for _ in 0..n {
                nest.wrap(&[0x84, 0x40, 0xa0, 0xf6, 0x81], &[]);
            }
            let r = nest.finish();
            match parts[1] {
                "recipient" => Some((vec![(Ty::Recipient, Entry::Slice)], r)),
                "encrypt" => Some((vec![(Ty::Encrypt, Entry::Slice), (Ty::Encrypt, Entry::Tagged)], [&[0x84u8, 0x40, 0xa0, 0xf6, 0x81][..], &r].concat())),
                _ => Some((vec![(Ty::Mac, Entry::Slice)], [&[0x85u8, 0x40, 0xa0, 0x41, 0x70, 0x40, 0x81][..], &r].concat())),
            }
        }
        "nest" => {
            // plain array / map / tag nesting, as an opaque extra value and as a top-level item
            let mut nest = Nester::new(&[0x00]);
            for _ in 0..n {
                match parts[1] {
                    "array" => nest.wrap(&[0x81], &[]),
                    "map" => nest.wrap(&[0xa1, 0x01], &[]),
                    "tag" => nest.wrap(&[0xc6], &[]),
                    _ => nest.wrap(&[0x9f], &[0xff]),
                }
            }
            let v = nest.finish();
            let hdr = [&[0xa1u8, 0x18, 0x63][..], &v].concat();
            match parts[2] {
                "extra" => Some((vec![(Ty::Header, Entry::Slice), (Ty::Key, Entry::Slice), (Ty::Claims, Entry::Slice)], hdr)),
                _ => Some((all_types().into_iter().map(|t| (t, Entry::Slice)).collect(), v)),
            }
        }
        "bstrwrap" => {
            // a header map wrapped in n layers of byte strings (a decoder that "looks through" a
            // wrapped protected header recurses once per layer); built outside-in in linear time
            let mut lens: Vec<usize> = vec![1];
            for k in 0..n {
                let l = lens[k];
                lens.push(l + uint_head(2, l as u64).len());
            }
            let mut v: Vec<u8> = Vec::with_capacity(lens[n]);
            for k in (0..n).rev() {
                v.extend_from_slice(&uint_head(2, lens[k] as u64));
            }
            v.push(0xa0);
            match parts[1] {
                "sign1" => Some((vec![(Ty::Sign1, Entry::Slice), (Ty::Mac0, Entry::Slice)], [&[0x84u8][..], &v, &[0xa0, 0xf6, 0x40]].concat())),
                "recipient" => Some((vec![(Ty::Recipient, Entry::Slice), (Ty::Encrypt0, Entry::Slice), (Ty::Signature, Entry::Slice)], [&[0x83u8][..], &v, &[0xa0, 0x40]].concat())),
                "supp" => Some((vec![(Ty::SuppPub, Entry::Slice)], [&[0x82u8, 0x18, 0x80][..], &v].concat())),
                _ => Some((vec![(Ty::Header, Entry::Slice)], [&[0xa1u8, 0x07, 0x83][..], &v, &[0xa0, 0x40]].concat())),
            }
        }
        "width" => {
            let rep_item = |item: &[u8], n: usize| -> Vec<u8> {
                let mut v = Vec::with_capacity(item.len() * n);
                for _ in 0..n {
                    v.extend_from_slice(item);
                }
                v
            };
            let numbered = |n: usize, f: &dyn Fn(usize) -> Vec<u8>| -> Vec<u8> {
                let mut v = Vec::new();
                for i in 0..n {
                    v.extend(f(i));
                }
                v
            };
            match parts[1] {
                "signatures" => Some((vec![(Ty::Sign, Entry::Slice), (Ty::Sign, Entry::Tagged)], [&[0x84u8, 0x40, 0xa0, 0xf6][..], &uint_head(4, n as u64), &rep_item(&[0x83, 0x41, 0xa0, 0xa0, 0x41, 0x01], n)].concat())),
                "recipients" => Some((vec![(Ty::Encrypt, Entry::Slice), (Ty::Recipient, Entry::Slice)], [&[0x84u8, 0x40, 0xa0, 0x41, 0x01][..], &uint_head(4, n as u64), &rep_item(&[0x83, 0x40, 0xa0, 0x41, 0x02], n)].concat())),
                "countersigs" => Some((vec![(Ty::Header, Entry::Slice)], [&[0xa1u8, 0x07][..], &uint_head(4, n.max(2) as u64), &rep_item(&[0x83, 0x40, 0xa0, 0x40], n.max(2))].concat())),
                "extras" => Some((vec![(Ty::Header, Entry::Slice), (Ty::Key, Entry::Slice)], [&uint_head(5, n as u64 + 1)[..], &[0x01, 0x01], &numbered(n, &|i| [&uint_head(0, 100 + i as u64)[..], &[0x00]].concat())].concat())),
                "crit" => Some((vec![(Ty::Header, Entry::Slice)], [&[0xa1u8, 0x02][..], &uint_head(4, n as u64), &rep_item(&[0x04], n)].concat())),
                "key_ops" => Some((vec![(Ty::Key, Entry::Slice)], [&[0xa2u8, 0x01, 0x01, 0x04][..], &uint_head(4, n as u64), &numbered(n, &|i| { let s = format!("op{}", i); [&uint_head(3, s.len() as u64)[..], s.as_bytes()].concat() })].concat())),
                "claims" => Some((vec![(Ty::Claims, Entry::Slice)], [&uint_head(5, n as u64)[..], &numbered(n, &|i| { let s = format!("c{}", i); [&uint_head(3, s.len() as u64)[..], s.as_bytes(), &[0x01]].concat() })].concat())),
                "keys" => Some((vec![(Ty::KeySet, Entry::Slice)], [&uint_head(4, n as u64)[..], &rep_item(&[0xa2, 0x01, 0x01, 0x20, 0x41, 0x00], n)].concat())),
                "priv" => Some((vec![(Ty::Kdf, Entry::Slice)], [&uint_head(4, n as u64 + 4)[..], &[0x26, 0x83, 0xf6, 0xf6, 0xf6, 0x83, 0xf6, 0xf6, 0xf6, 0x82, 0x18, 0x80, 0x40], &rep_item(&[0x41, 0x07], n)].concat())),
                "payload" => Some((vec![(Ty::Sign1, Entry::Slice), (Ty::Mac0, Entry::Slice)], [&[0x84u8, 0x40, 0xa0][..], &uint_head(2, n as u64), &vec![0x5a; n], &[0x40]].concat())),
                "payload_chunked" => Some((vec![(Ty::Sign1, Entry::Slice), (Ty::Encrypt0, Entry::Slice)], [&[0x83u8, 0x40, 0xa0, 0x5f][..], &rep_item(&[0x41, 0x5a], n), &[0xff]].concat())),
                "text" => Some((vec![(Ty::Header, Entry::Slice), (Ty::Label, Entry::Slice)], { let t = [&uint_head(3, n as u64)[..], &vec![b'a'; n]].concat(); if parts.get(2) == Some(&"label") { t } else { [&[0xa1u8][..], &t, &[0x00]].concat() } })),
                "kid" => Some((vec![(Ty::Header, Entry::Slice)], [&[0xa1u8, 0x04][..], &uint_head(2, n as u64), &vec![1; n]].concat())),
                "protected_big" => {
                    // a protected header with n extras, itself carried n levels... no: one level, wide
                    let h = [&uint_head(5, n as u64)[..], &numbered(n, &|i| [&uint_head(0, 100 + i as u64)[..], &[0x00]].concat())].concat();
                    Some((vec![(Ty::Sign1, Entry::Slice), (Ty::SuppPub, Entry::Slice)], if parts.get(2) == Some(&"supp") { [&[0x82u8, 0x01][..], &wrap_bstr(&h)].concat() } else { [&[0x84u8][..], &wrap_bstr(&h), &[0xa0, 0xf6, 0x40]].concat() }))
                }
                _ => None,
            }
        }
        "declared" => {
            // heads that declare 2^k items / bytes over a short input (k = n)
            let count = if n >= 64 { u64::MAX } else { 1u64 << n };
            let head = |major: u8| -> Vec<u8> { [&[(major << 5) | 27][..], &count.to_be_bytes()].concat() };
            let v = match parts[1] {
                "array" => head(4),
                "map" => head(5),
                "bytes" => [&head(2)[..], &[0u8; 16]].concat(),
                "text" => [&head(3)[..], &[b'a'; 16]].concat(),
                "payload" => [&[0x84u8, 0x40, 0xa0][..], &head(2), &[0u8; 16]].concat(),
                _ => [&[0x84u8, 0x40, 0xa0, 0xf6][..], &head(4), &[0x83, 0x40, 0xa0, 0x40]].concat(),
            };
            Some((all_types().into_iter().map(|t| (t, Entry::Slice)).collect(), v))
        }
        _ => None,
    }
}

pub fn family_names(thorough: bool) -> Vec<String> {
    let mut v = Vec::new();
    for w in edge_words() {
        let carriers: Vec<usize> = if w.len() == 1 || thorough { vec![0, 1, 2, 3, 4] } else if w.len() == 2 { vec![0, 1] } else { vec![0] };
        for c in carriers {
            v.push(format!("depth:{}:{}", w.join("-"), c));
        }
    }
    for upl in [10usize, 40, 100, 120] {
        for c in [0usize, 2] {
            v.push(format!("depthmix:{}:{}", upl, c));
        }
    }
    for k in ["recipient", "encrypt", "mac"] {
        v.push(format!("recipients:{}", k));
    }
    for k in ["array", "map", "tag", "indef"] {
        for pos in ["extra", "top"] {
            v.push(format!("nest:{}:{}", k, pos));
        }
    }
    for k in ["sign1", "recipient", "supp", "countersig"] {
        v.push(format!("bstrwrap:{}", k));
    }
    for k in ["signatures", "recipients", "countersigs", "extras", "crit", "key_ops", "claims", "keys", "priv", "payload", "payload_chunked", "text", "text:label", "kid", "protected_big", "protected_big:supp"] {
        v.push(format!("width:{}", k));
    }
    v
}

fn rungs(name: &str, cap: usize) -> Vec<usize> {
    let mut v: Vec<usize> = Vec::new();
    let mut n = 1usize;
    loop {
        let len = match family(name, n) {
            Some((_, b)) => b.len(),
            None => break,
        };
        if len > cap {
            break;
        }
        v.push(n);
        n = match n {
            1..=8 => n + 1,
            9..=13 => 14,
            14..=19 => n + 1, // around the header nesting limit
            20..=23 => 24,
            24..=31 => 32,
            32..=47 => 48,
            48..=63 => 64,
            _ => n * 2,
        };
        if n > (1 << 24) {
            break;
        }
    }
    v
}

fn ladders(rep: &Report, cfg: &str, bin: &str, full: bool, l: &mut Local) {
    let thorough = rep.tier == Tier::Thorough;
    let cap = if thorough { 1 << 20 } else { 64 << 10 };
    rep.bound("c01.ladders.input_cap_bytes", json!(cap));
    let names = family_names(thorough);
    rep.bound("c01.ladders.families", json!(names.len() + 6));
    let mut jobs: Vec<(String, usize, &str)> = Vec::new();
    for name in &names {
        let rs = rungs(name, cap);
        for n in rs {
            if !full && n < 64 && n != 17 {
                continue;
            }
            // both stacks on every rung of the small range and on every doubling rung
            jobs.push((name.clone(), n, "thread"));
            if n <= 2 || n >= 64 {
                jobs.push((name.clone(), n, "main"));
            }
        }
    }
    for k in ["array", "map", "bytes", "text", "payload", "signatures"] {
        for e in [8usize, 16, 24, 31, 32, 40, 48, 56, 63, 64] {
            jobs.push((format!("declared:{}", k), e, "thread"));
        }
    }
    rep.bound(&format!("c01.ladders.{}.rungs", cfg), json!(jobs.len()));
    let outs: Vec<(&(String, usize, &str), ChildOut)> = jobs.par_iter().map(|j| (j, run_child(bin, &["rung".into(), j.0.clone(), j.1.to_string(), j.2.to_string()], 600))).collect();
    let mut worst_peak = 0f64;
    let mut worst_total = 0f64;
    // decode time per (family, stack, n) for the growth test
    let mut times: std::collections::BTreeMap<(String, String), Vec<(usize, f64)>> = std::collections::BTreeMap::new();
    for ((name, n, stack), c) in outs {
        let (p, t) = eval_rung(cfg, name, *n, stack, &c, l);
        worst_peak = worst_peak.max(p);
        worst_total = worst_total.max(t);
        if let (Some(j), true) = (&c.json, c.ok) {
            times.entry((name.clone(), stack.to_string())).or_default().push((*n, j["ms"].as_u64().unwrap_or(0) as f64));
        }
    }
    // growth: quadrupling the size parameter must not multiply the decode time by much more than
    // four once the time is measurable (a quadratic family gives 16).  Suspicious pairs are
    // re-measured three times sequentially and the minima compared, so that scheduling noise on
    // a busy machine cannot raise the alarm.
    for ((name, stack), mut v) in times {
        v.sort_by(|a, b| a.0.cmp(&b.0));
        let (n_hi, t_hi) = match v.last() {
            Some(x) => *x,
            None => continue,
        };
        let lo = v.iter().find(|(n, _)| *n * 4 == n_hi);
        if let Some((n_lo, t_lo)) = lo {
            if t_hi >= 40.0 && t_hi > 9.0 * t_lo.max(1.0) {
                let remeasure = |n: usize| -> f64 {
                    (0..3)
                        .filter_map(|_| {
                            let c = run_child(bin, &["rung".into(), name.clone(), n.to_string(), stack.clone()], 600);
                            c.json.as_ref().and_then(|j| j["ms"].as_u64()).map(|x| x as f64)
                        })
                        .fold(f64::INFINITY, f64::min)
                };
                let (m_hi, m_lo) = (remeasure(n_hi), remeasure(*n_lo));
                l.count("ladder.growth_remeasured");
                if m_hi.is_finite() && m_lo.is_finite() && m_hi >= 40.0 && m_hi > 9.0 * m_lo.max(1.0) {
                    let fam_key = name.split(':').take(2).collect::<Vec<_>>().join(":");
                    l.viol(Viol {
                        key: format!("C01:time-superlinear:{}", fam_key),
                        space: format!("c01.{}", cfg),
                        case: format!("family={} stack={} cfg={} n={} vs n={}", name, stack, cfg, n_hi, n_lo),
                        direct: None,
                        expected: "decode time grows about 4x when the input grows 4x".into(),
                        observed: format!("{} ms at n={} vs {} ms at n={} (minimum of three runs each)", m_hi, n_hi, m_lo, n_lo),
                    });
                }
            }
        }
    }
    rep.bound(&format!("c01.ladders.{}.worst_peak_bytes_per_input_byte", cfg), json!(worst_peak));
    rep.bound(&format!("c01.ladders.{}.worst_total_bytes_per_input_byte", cfg), json!(worst_total));
}

/// Oracle for one ladder rung; returns (peak, total) heap bytes per input byte.
fn eval_rung(cfg: &str, name: &str, n: usize, stack: &str, c: &ChildOut, l: &mut Local) -> (f64, f64) {
    l.state(n as u64);
    l.evaluations += 1;
    l.nontrivial(&(cfg, name, n, stack));
    let case = format!("family={} n={} stack={} cfg={}", name, n, stack, cfg);
    let direct = Some(json!({"kind": "rung", "family": name, "n": n, "stack": stack, "cfg": cfg}));
    let fam_key = name.split(':').take(2).collect::<Vec<_>>().join(":");
    let j = match (&c.json, c.ok) {
        (Some(j), true) => j.clone(),
        _ => {
            let mut v = died(cfg, &format!("ladder:{}", if name.starts_with("depth:") { "depth".to_string() } else { fam_key.clone() }), case, c);
            v.direct = direct;
            l.viol(v);
            return (0.0, 0.0);
        }
    };
    l.impl_checked += j["results"].as_array().map(|a| a.len() as u64).unwrap_or(0);
    let len = j["len"].as_u64().unwrap_or(0) as f64;
    let peak = j["peak"].as_u64().unwrap_or(0) as f64;
    let total = j["total"].as_u64().unwrap_or(0) as f64;
    let ms = j["ms"].as_u64().unwrap_or(0) as f64;
    if n == 64 && l.samples.len() < 2 {
        l.sample(|| json!({"space": "c01.ladder", "case": case, "input_len": len, "peak_heap": peak, "total_alloc": total, "ms": ms}));
    }
    let mk = |what: String, expected: String, observed: String| Viol { key: format!("C01:{}:{}", what, fam_key), space: format!("c01.{}", cfg), case: case.clone(), direct: direct.clone(), expected, observed };
    for r in j["results"].as_array().cloned().unwrap_or_default() {
        l.count(&format!("ladder.outcome.{}", r["outcome"].as_str().unwrap_or("?")));
        if r["outcome"] == "panic" {
            l.viol(mk("panic:ladder".into(), "Ok or Err".into(), r["msg"].as_str().unwrap_or("").to_string()));
        }
    }
    if peak > 1024.0 * len + (1 << 20) as f64 {
        l.viol(mk("memory-peak-superlinear".into(), format!("peak live heap <= 1 KiB x {} + 1 MiB", len), format!("{} bytes", peak)));
    }
    if total > 4096.0 * len + (1 << 20) as f64 {
        l.viol(mk("memory-total-superlinear".into(), format!("total allocated <= 4 KiB x {} + 1 MiB", len), format!("{} bytes", total)));
    }
    if ms > 10_000.0 * len / (1 << 20) as f64 + 2000.0 {
        l.viol(mk("time".into(), "wall <= 10 s/MiB + 2 s".into(), format!("{} ms", ms)));
    }
    (peak / (len + 1.0), total / (len + 1.0))
}

/// Replay one recorded rung (direct replay, no enumeration).
pub fn replay_rung(d: &Json, l: &mut Local) {
    let me = std::env::current_exe().unwrap().to_string_lossy().to_string();
    let bin = if d["cfg"] == "std" { std::env::var("VERIF_STD_BIN").unwrap_or(me) } else { me };
    let name = d["family"].as_str().unwrap_or("");
    let n = d["n"].as_u64().unwrap_or(1) as usize;
    let stack = d["stack"].as_str().unwrap_or("thread");
    let c = run_child(&bin, &["rung".into(), name.to_string(), n.to_string(), stack.to_string()], 600);
    eval_rung(d["cfg"].as_str().unwrap_or("no_std"), name, n, stack, &c, l);
}

pub fn child_rung(name: &str, n: usize, stack: &str) -> i32 {
    let (eps, bytes) = match family(name, n) {
        Some(x) => x,
        None => {
            eprintln!("unknown family {}", name);
            return 2;
        }
    };
    let work = move || -> Json {
        let mut results = Vec::new();
        let mut l = Local::default();
        let (mut peak, mut total, mut ms) = (0usize, 0usize, 0u64);
        for (ty, entry) in &eps {
            // memory and time are measured for decoding (and dropping the result) only
            crate::alloc_count::start();
            let t0 = Instant::now();
            let o = subject_decode(*ty, *entry, &bytes);
            let dt = t0.elapsed().as_millis() as u64;
            let (p1, t1) = crate::alloc_count::stop();
            let (outcome, msg) = match &o {
                Outcome::Ok(v) => {
                    let case = crate::oracle::Case { pid: "C01", space: "c01.ladder", ty: *ty, entry: *entry, bytes: &bytes };
                    crate::oracle::followups(&case, v, &mut l);
                    ("ok", String::new())
                }
                Outcome::Err(e) => ("err", format!("{:?}", e)),
                Outcome::Panic(p) => ("panic", p.clone()),
            };
            let t2 = Instant::now();
            drop(o);
            ms = ms.max(dt + t2.elapsed().as_millis() as u64);
            peak = peak.max(p1);
            total = total.max(t1);
            results.push(json!({"ty": crate::oracle::ty_name(*ty), "entry": entry.name(), "outcome": outcome, "msg": msg}));
        }
        for v in &l.viols {
            results.push(json!({"ty": "followup", "entry": v.key, "outcome": "panic", "msg": v.observed}));
        }
        json!({"len": bytes.len(), "peak": peak, "total": total, "ms": ms, "results": results})
    };
    let j = if stack == "thread" {
        // std::thread's default stack size (2 MiB): "an ordinary thread stack"
        match std::thread::Builder::new().spawn(work).unwrap().join() {
            Ok(j) => j,
            Err(_) => return 3,
        }
    } else {
        work()
    };
    println!("{}", j);
    0
}

pub fn child(args: &[String]) -> i32 {
    match args.first().map(|s| s.as_str()) {
        Some("sweep") if args.len() == 4 => child_sweep(args[1].parse().unwrap_or(1), args[2].parse().unwrap_or(0), args[3].parse().unwrap_or(0)),
        Some("structured") if args.len() == 2 => child_structured(&args[1]),
        Some("rung") if args.len() == 4 => child_rung(&args[1], args[2].parse().unwrap_or(1), &args[3]),
        _ => {
            eprintln!("bad child invocation {:?}", args);
            2
        }
    }
}
