//! C03 / C04 / C05 — to-be-signed, to-be-MACed and AEAD additional-data bytes are exactly the
//! RFC 8152 structures.

use super::crypto::{self, Cx};
use super::{Ex, Scale};
use crate::gen;
use crate::mc::{par_partitions, Local, Report};
use crate::refcbor::{hex, read_all, Item, ReadAll};
use crate::refcose::*;
use crate::spaces::c11::{eq_cose, l_int, l_text, sig_reps};
use crate::subject::{self, catch};
use coset::{CoseEncrypt0Builder, CoseEncryptBuilder, CoseMac0Builder, CoseMacBuilder, CoseRecipientBuilder, CoseSign1Builder, CoseSignBuilder, EncryptionContext};
use serde_json::json;
use std::cell::RefCell;

/// Protected-header palette of DESIGN 4.3: four wire forms, four built forms.
pub fn prot_palette() -> Vec<RProtected> {
    let alg = RHeader { alg: Some(l_int(-7)), ..Default::default() };
    let two = RHeader { alg: Some(l_int(-7)), key_id: b"11".to_vec(), ..Default::default() };
    let extras = RHeader { rest: vec![(l_text("z"), gen::u(1)), (l_int(-1), gen::b(b"x"))], ..Default::default() };
    let cs = RHeader { counter_signatures: vec![sig_reps()[1].clone()], ..Default::default() };
    // three distinct counter signatures: the list form, in the order given
    let cs3 = RHeader { counter_signatures: vec![sig_reps()[2].clone(), sig_reps()[0].clone(), sig_reps()[1].clone()], ..Default::default() };
    let mut v = vec![
        RProtected { original: Some(vec![]), header: RHeader::default() },
        RProtected { original: Some(vec![0xa0]), header: RHeader::default() },
        // non-canonical: key order swapped, non-minimal integer, indefinite map
        RProtected { original: Some(vec![0xbf, 0x04, 0x42, 0x31, 0x31, 0x01, 0x38, 0x06, 0xff]), header: two.clone() },
        RProtected { original: Some(enc_header(&two).det()), header: two.clone() },
        RProtected { original: None, header: RHeader::default() },
        RProtected { original: None, header: alg.clone() },
        RProtected { original: None, header: extras.clone() },
        RProtected { original: None, header: cs.clone() },
        RProtected { original: None, header: cs3.clone() },
    ];
    // retained bytes win over an edited parsed view
    v.push(RProtected { original: Some(vec![]), header: alg.clone() });
    v.push(RProtected { original: Some(vec![0xa0]), header: RHeader { key_id: b"k".to_vec(), ..Default::default() } });
    // received bytes whose parsed view is not equal to itself (NaN) and is not minimally encoded
    v.push(RProtected {
        original: Some(vec![0xa1, 0x18, 0x63, 0xfb, 0x7f, 0xf8, 0, 0, 0, 0, 0, 0]),
        header: RHeader { rest: vec![(l_int(99), Item::float(f64::NAN))], ..Default::default() },
    });
    // every typed field alone (an emptiness test that forgets a field turns it into h'')
    for h in crate::spaces::c11::single_field_headers().into_iter().skip(1).take(5) {
        v.push(RProtected { original: None, header: h });
    }
    // the same counter signature twice (a list is not a set)
    v.push(RProtected { original: None, header: RHeader { counter_signatures: vec![sig_reps()[1].clone(), sig_reps()[1].clone()], ..Default::default() } });
    // crit in an order that no canonical form would produce (the list is the caller's)
    v.push(RProtected { original: None, header: RHeader { crit: vec![l_text("x"), l_int(4), l_int(1)], key_id: b"k".to_vec(), ..Default::default() } });
    v
}

/// Built protected headers naming each registered algorithm and nothing else (no structure depends
/// on which algorithm is named; a table of pre-encoded headers would).
pub fn alg_forms() -> Vec<RProtected> {
    crate::refiana::table(crate::refiana::Reg::Algorithm)
        .iter()
        .map(|(_, a)| RProtected { original: None, header: RHeader { alg: Some(l_int(*a)), ..Default::default() } })
        .collect()
}

pub fn bstr_classes(ex: &Ex) -> Vec<Vec<u8>> {
    let lens: Vec<usize> = match ex.scale {
        Scale::Small => vec![0, 1, 24, 256],
        Scale::Quick => vec![0, 1, 23, 24, 255, 256, 65535, 65536],
        Scale::Thorough => vec![0, 1, 23, 24, 255, 256, 65535, 65536, 1 << 20],
    };
    let mut v: Vec<Vec<u8>> = lens.into_iter().map(gen::pattern).collect();
    // contents that look like CBOR themselves (tagged array head, empty bstr, break), NUL
    if ex.scale != Scale::Small {
        v.push(vec![0xd2, 0x84, 0x40, 0xa0, 0xf6, 0x40]);
        v.push(vec![0x87, 0x84, 0x40, 0xa0, 0xf6, 0x40]);
        v.push(vec![0x40]);
        v.push(vec![0xff, 0x00]);
    }
    v
}

/// Pairs (aad, payload) of length classes: the full product of the small classes, the large ones
/// against a few partners (quick) or the full product (thorough).
pub fn aad_payload_pairs(ex: &Ex) -> Vec<(Vec<u8>, Vec<u8>)> {
    let cls = bstr_classes(ex);
    let mut v = Vec::new();
    for a in &cls {
        for p in &cls {
            let big = |x: &Vec<u8>| x.len() > 256;
            if ex.scale != Scale::Thorough && big(a) && big(p) && a.len() != p.len() {
                continue;
            }
            let mut p2 = p.clone();
            // make the payload differ from the aad of equal length
            if !p2.is_empty() {
                p2[0] ^= 0x55;
            }
            v.push((a.clone(), p2));
        }
    }
    v
}

/// The bytes a built protected header contributes must parse to the header's map (or be empty).
fn check_built_slot(cx: &Cx, p: &RProtected, l: &mut Local) {
    let cp = match subject::c_protected(p) {
        Ok(c) => c,
        Err(_) => return,
    };
    if let Some(orig) = &p.original {
        // a header that came from the wire contributes exactly the received bytes
        if let Some(bytes) = crypto::protected_bytes_of(&cp) {
            l.impl_checked += 1;
            if bytes != *orig {
                cx.viol(l, "received-protected-bytes-not-used", hex(orig), hex(&bytes));
            }
        }
        return;
    }
    if let Some(bytes) = crypto::protected_bytes_of(&cp) {
        l.impl_checked += 1;
        if p.header.is_empty() {
            if !bytes.is_empty() {
                cx.viol(l, "built-empty-protected-not-empty-bstr", "zero-length byte string".into(), hex(&bytes));
            }
        } else {
            let ok = match read_all(&bytes) {
                ReadAll::One(e) => e.is_definite() && matches!(e.item(), Item::Map(_)) && eq_cose(&e.item(), &enc_header(&p.header)),
                _ => false,
            };
            if !ok {
                cx.viol(l, "built-protected-slot-is-not-the-encoded-map", format!("{:?}", enc_header(&p.header)), hex(&bytes));
            }
        }
    }
}

/// A message received with protected bytes `wire`, whose parsed view is edited afterwards without
/// touching the retained bytes: every structure must still carry the received bytes.
pub fn edited_after_decode(ex: &Ex, fams: &'static str, l: &mut Local) {
    use coset::CborSerializable;
    let wires: Vec<Vec<u8>> = vec![vec![], vec![0xa0], vec![0xa1, 0x01, 0x38, 0x06], vec![0xa2, 0x04, 0x41, 0x6b, 0x01, 0x26]];
    let edits = crate::spaces::c11::single_field_headers();
    let aad: &[u8] = b"edit-aad";
    for wire in &wires {
        for (ei, edit) in edits.iter().enumerate().take(4) {
            let pb = crate::spaces::wrap_bstr(wire);
            let ch = subject::c_header(edit).unwrap();
            let case = format!("decoded with protected bytes {} then header edited to #{}", hex(wire), ei);
            let cx = Cx { pid: ex.pid, space: "edited-after-decode", case: &case, exact: true, fams, slots_only: false, body_override: Some(wire) };
            l.state(1);
            l.count("edited_after_decode.cases");
            if fams.contains('S') {
                let bytes = [&[0x84u8][..], &pb, &[0xa0, 0x41, 0x70, 0x41, 0x73]].concat();
                if let Ok(Ok(mut m)) = catch(|| coset::CoseSign1::from_slice(&bytes)) {
                    m.protected.header = ch.clone();
                    crypto::sign1(&cx, &m, &[aad], &[], l);
                }
                let bytes = [&[0x84u8][..], &pb, &[0xa0, 0x41, 0x70, 0x81, 0x83, 0x40, 0xa0, 0x41, 0x73]].concat();
                if let Ok(Ok(mut m)) = catch(|| coset::CoseSign::from_slice(&bytes)) {
                    m.protected.header = ch.clone();
                    crypto::sign(&cx, &m, &[aad], &[], l);
                }
            }
            if fams.contains('M') {
                let bytes = [&[0x84u8][..], &pb, &[0xa0, 0x41, 0x70, 0x41, 0x74]].concat();
                if let Ok(Ok(mut m)) = catch(|| coset::CoseMac0::from_slice(&bytes)) {
                    m.protected.header = ch.clone();
                    crypto::mac0(&cx, &m, &[aad], l);
                }
                let bytes = [&[0x85u8][..], &pb, &[0xa0, 0x41, 0x70, 0x41, 0x74, 0x81, 0x83, 0x40, 0xa0, 0x41, 0x63]].concat();
                if let Ok(Ok(mut m)) = catch(|| coset::CoseMac::from_slice(&bytes)) {
                    m.protected.header = ch.clone();
                    crypto::mac(&cx, &m, &[aad], l);
                }
            }
            if fams.contains('E') {
                let bytes = [&[0x83u8][..], &pb, &[0xa0, 0x41, 0x63]].concat();
                if let Ok(Ok(mut m)) = catch(|| coset::CoseEncrypt0::from_slice(&bytes)) {
                    m.protected.header = ch.clone();
                    crypto::encrypt0(&cx, &m, &[aad], l);
                }
                if let Ok(Ok(mut m)) = catch(|| coset::CoseRecipient::from_slice(&bytes)) {
                    m.protected.header = ch.clone();
                    let enc = [&[0x83u8][..], &pb, &[0xa0, 0x41, 0x63]].concat();
                    crypto::recipient(&cx, &m, &enc, &[], &[aad], l);
                }
                let bytes = [&[0x84u8][..], &pb, &[0xa0, 0x41, 0x63, 0x81, 0x83, 0x40, 0xa0, 0x41, 0x63]].concat();
                if let Ok(Ok(mut m)) = catch(|| coset::CoseEncrypt::from_slice(&bytes)) {
                    m.protected.header = ch.clone();
                    crypto::encrypt(&cx, &m, &[aad], l);
                }
            }
        }
    }
}


/// Built protected headers that have no encoding at all (a repeated extra label, directly or inside
/// a counter-signature).  A structure function may refuse them (the crate panics); if it returns
/// bytes, those must not coincide with the bytes of any other input (injectivity).
fn unencodable_headers() -> Vec<coset::ProtectedHeader> {
    let dup = RHeader { rest: vec![(l_int(9), gen::u(1)), (l_int(9), gen::u(2))], ..Default::default() };
    let inner = RSignature { protected: RProtected { original: None, header: dup.clone() }, unprotected: RHeader::default(), signature: vec![] };
    let nested = RHeader { counter_signatures: vec![inner], ..Default::default() };
    vec![
        subject::c_protected(&RProtected { original: None, header: dup }).unwrap(),
        subject::c_protected(&RProtected { original: None, header: nested }).unwrap(),
    ]
}

fn check_unencodable(pid: &str, space: &str, table: &std::sync::Mutex<std::collections::HashMap<Vec<u8>, String>>, f: &dyn Fn(coset::ProtectedHeader) -> Vec<(String, Vec<u8>)>, l: &mut Local) {
    for (hi, h) in unencodable_headers().into_iter().enumerate() {
        l.state(1);
        l.count("unencodable_header_cases");
        if let Ok(outs) = catch(|| f(h.clone())) {
            let t = table.lock().unwrap();
            for (what, out) in outs {
                if let Some(prev) = t.get(&out) {
                    l.viol(crate::mc::Viol {
                        key: format!("{}:unencodable-header-shares-bytes-with-another-input", pid),
                        space: space.to_string(),
                        case: format!("{} with unencodable protected header #{}", what, hi),
                        direct: None,
                        expected: "refused, or bytes that no other input produces".into(),
                        observed: format!("same bytes as {}", prev),
                    });
                }
            }
        }
    }
}

/// A message assembled by a builder (create helper included) whose protected header is edited on
/// the built value: a built value has no retained bytes, so every structure must carry the encoding
/// of the *edited* header (single-field headers: their encoded map is unique).
pub fn built_then_edited(ex: &Ex, fams: &'static str, l: &mut Local) {
    let heads = crate::spaces::c11::single_field_headers();
    let aad: &[u8] = b"a";
    for (i, h1) in heads.iter().enumerate().take(6) {
        let h2 = &heads[(i + 1) % 6];
        let (c1, c2) = (subject::c_header(h1).unwrap(), subject::c_header(h2).unwrap());
        let want = enc_header(h2).det();
        let case = format!("built with protected header #{} then edited to #{}", i, (i + 1) % 6);
        let cx = Cx { pid: ex.pid, space: "built-then-edited", case: &case, exact: true, fams, slots_only: true, body_override: Some(&want) };
        l.state(1);
        l.count("built_then_edited.cases");
        if fams.contains('S') {
            if let Ok(mut m) = catch(|| CoseSign1Builder::new().protected(c1.clone()).payload(b"p".to_vec()).create_signature(aad, |_| vec![1]).build()) {
                m.protected.header = c2.clone();
                crypto::sign1(&cx, &m, &[aad], &[], l);
            }
        }
        if fams.contains('M') {
            if let Ok(mut m) = catch(|| CoseMac0Builder::new().protected(c1.clone()).payload(b"p".to_vec()).create_tag(aad, |_| vec![1]).build()) {
                m.protected.header = c2.clone();
                crypto::mac0(&cx, &m, &[aad], l);
            }
            if let Ok(mut m) = catch(|| CoseMacBuilder::new().protected(c1.clone()).payload(b"p".to_vec()).try_create_tag(aad, |_| -> Result<Vec<u8>, String> { Ok(vec![1]) }).map(|b| b.build())) {
                if let Ok(m) = &mut m {
                    m.protected.header = c2.clone();
                    crypto::mac(&cx, m, &[aad], l);
                }
            }
        }
        if fams.contains('E') {
            if let Ok(mut m) = catch(|| CoseEncrypt0Builder::new().protected(c1.clone()).create_ciphertext(b"pt", aad, |_, _| vec![1]).build()) {
                m.protected.header = c2.clone();
                crypto::encrypt0(&cx, &m, &[aad], l);
            }
            if let Ok(mut m) = catch(|| CoseEncryptBuilder::new().protected(c1.clone()).try_create_ciphertext(b"pt", aad, |_, _| -> Result<Vec<u8>, String> { Ok(vec![1]) }).map(|b| b.build())) {
                if let Ok(m) = &mut m {
                    m.protected.header = c2.clone();
                    crypto::encrypt(&cx, m, &[aad], l);
                }
            }
            if let Ok(mut m) = catch(|| CoseRecipientBuilder::new().protected(c1.clone()).create_ciphertext(EncryptionContext::EncRecipient, b"pt", aad, |_, _| vec![1]).build()) {
                m.protected.header = c2.clone();
                crypto::recipient(&cx, &m, &[], &[], &[aad], l);
            }
        }
    }
}

// ---------------------------------------------------------------------------------------------
// C03

pub fn run_c03(rep: &Report) -> u64 {
    rep.set_rule("C03: (context in Sign1/Sign/CounterSignature) x body protected in 8 forms (4 wire, 4 built) x signer protected in {absent, 8 forms} x (AAD, payload) over the bstr length classes 0,1,23,24,255,256,65535,65536 (thorough adds 2^20) x payload placement {embedded, detached, absent} x 1..3 signers; every route: sig_structure_data, tbs_data, tbs_detached_data, the data argument of every create/add/try/verify closure; oracle: byte equality with the independent deterministic encoder; documented panics occur iff documented; injectivity table over all outputs; non-trivial = all tuples; distinct by output bytes");
    rep.assume("a protected header built in memory contributes the bytes its own encoding carries in the protected slot (checked to parse to the header's map)");
    let ex = Ex::own(rep, crate::oracle::Checks::NONE);
    explore_c03(&ex);
    1000
}

/// A signer that is, value for value, equal to a counter signature listed in the body's headers (the
/// same party signs and counter-signs): it is still signed under "Signature", at every index.
fn signer_equal_to_counter_signature(ex: &Ex) {
    let mut l = Local::default();
    let x = sig_reps()[1].clone();
    let other = sig_reps()[2].clone();
    let body = RProtected { original: None, header: RHeader { counter_signatures: vec![x.clone()], ..Default::default() } };
    let un = RHeader { counter_signatures: vec![x.clone(), other.clone()], ..Default::default() };
    for (k, sigs) in [vec![x.clone()], vec![other.clone(), x.clone()], vec![x.clone(), other.clone(), x.clone()]].into_iter().enumerate() {
        for payload in [Some(b"payload".to_vec()), None] {
            let case = format!("signer == counter signature, list {} payload {:?}", k, payload.as_ref().map(|p| p.len()));
            if let Ok(only) = std::env::var("VERIF_ONLY_CASE") {
                if only != case {
                    continue;
                }
            }
            l.state(1);
            l.nontrivial(&case);
            let cx = Cx { pid: ex.pid, space: "c03.signer_is_countersigner", case: &case, exact: true, fams: "S", slots_only: false, body_override: None };
            let m = subject::c_sign(&RSign { protected: body.clone(), unprotected: un.clone(), payload: payload.clone(), signatures: sigs.clone() }).unwrap();
            crypto::sign(&cx, &m, &[b"", b"aad"], &[b"detached"], &mut l);
        }
    }
    ex.rep.merge(l);
}

pub fn explore_c03(ex: &Ex) {
    signer_equal_to_counter_signature(ex);
    let mut pal = prot_palette();
    let base = pal.len();
    pal.extend(alg_forms());
    let pairs = aad_payload_pairs(ex);
    ex.bound("c03", "protected_forms", json!(pal.len()));
    ex.bound("c03", "aad_payload_pairs", json!(pairs.len()));
    let exact = true;
    // work items: (body index, signer index or none)
    let mut work: Vec<(usize, Option<usize>)> = Vec::new();
    for b in 0..base {
        work.push((b, None));
        for s in 0..base {
            work.push((b, Some(s)));
        }
    }
    // one header per registered algorithm: as body, as signer, as both (few length classes)
    for a in base..pal.len() {
        work.push((a, None));
        work.push((a, Some(a)));
        work.push((3, Some(a)));
    }
    let injective: std::sync::Mutex<std::collections::HashMap<Vec<u8>, String>> = std::sync::Mutex::new(std::collections::HashMap::new());
    par_partitions(ex.rep, work, |(bi, si), l| {
        let body = &pal[*bi];
        let case = format!("body={} signer={:?}", bi, si);
        let cx = Cx { pid: ex.pid, space: "c03", case: &case, exact, fams: "S", slots_only: false, body_override: None };
        check_built_slot(&cx, body, l);
        let cbody = subject::c_protected(body).unwrap();
        let swept = *bi >= base || si.map_or(false, |s| s >= base);
        for (aad, payload) in pairs.iter().take(if swept { 4 } else { pairs.len() }) {
            l.state(1);
            let case = format!("body={} signer={:?} aad_len={} payload_len={}", bi, si, aad.len(), payload.len());
            if let Ok(only) = std::env::var("VERIF_ONLY_CASE") {
                if only != case {
                    continue;
                }
            }
            let cx = Cx { pid: ex.pid, space: "c03", case: &case, exact, fams: "S", slots_only: false, body_override: None };
            if l.samples.is_empty() {
                l.sample(|| json!({"space": "c03", "case": case, "body_protected": format!("{:?}", body)}));
            }
            l.nontrivial(&case);
            match si {
                None => {
                    // general function without sign_protected, all contexts
                    crypto::sig_structure_fn(&cx, &cbody, None, aad, payload, l);
                    // COSE_Sign1 with embedded / absent payload, detached payloads
                    for embedded in [Some(payload.clone()), None] {
                        let m = subject::c_sign1(&RSign1 { protected: body.clone(), unprotected: RHeader::default(), payload: embedded, signature: b"sig".to_vec() }).unwrap();
                        crypto::sign1(&cx, &m, &[aad], &[payload, b""], l);
                    }
                    if body.original.is_none() {
                        sign1_builder_routes(&cx, &body.header, aad, payload, l);
                    }
                }
                Some(si) => {
                    let sp = &pal[*si];
                    let csp = subject::c_protected(sp).unwrap();
                    crypto::sig_structure_fn(&cx, &cbody, Some(&csp), aad, payload, l);
                    // COSE_Sign with 1..3 signers, the signer under test at every index
                    for n in 1..=3usize {
                        if n > 1 && (aad.len() > 256 || payload.len() > 256) {
                            continue;
                        }
                        for at in 0..n {
                            let mut sigs = Vec::new();
                            for k in 0..n {
                                let p = if k == at { sp.clone() } else { pal[(si + k + 1) % pal.len()].clone() };
                                sigs.push(RSignature { protected: p, unprotected: RHeader::default(), signature: vec![k as u8; 3] });
                            }
                            for embedded in [Some(payload.clone()), None] {
                                let m = subject::c_sign(&RSign { protected: body.clone(), unprotected: RHeader::default(), payload: embedded, signatures: sigs.clone() }).unwrap();
                                crypto::sign(&cx, &m, &[aad], &[payload], l);
                            }
                        }
                    }
                    if body.original.is_none() {
                        sign_builder_routes(&cx, &body.header, sp, aad, payload, l);
                    }
                }
            }
        }
        // injectivity: all distinct tuples of this partition must give distinct outputs
        if exact {
            let mut table = injective.lock().unwrap();
            let bb = crypto::protected_bytes_of(&cbody).unwrap_or_default();
            for (aad, payload) in pairs.iter().filter(|(a, p)| a.len() <= 256 && p.len() <= 256) {
                let sb = si.map(|s| crypto::protected_bytes_of(&subject::c_protected(&pal[s]).unwrap()).unwrap_or_default());
                for (ctx, text) in [(coset::SignatureContext::CoseSignature, "Signature"), (coset::SignatureContext::CoseSign1, "Signature1"), (coset::SignatureContext::CounterSignature, "CounterSignature")] {
                    let tuple = format!("{}|{}|{:?}|{}|{}", text, hex(&bb), sb.as_ref().map(|x| hex(x)), hex(aad), hex(payload));
                    if let Ok(out) = catch(|| coset::sig_structure_data(ctx, cbody.clone(), si.map(|s| subject::c_protected(&pal[s]).unwrap()), aad, payload)) {
                        if let Some(prev) = table.insert(out, tuple.clone()) {
                            if prev != tuple {
                                cx_global(ex.pid, l, "sig-structure-collision", prev, tuple);
                            }
                        }
                    }
                }
            }
            l.add("injectivity_table_entries", 0);
        }
    });
    ex.bound("c03", "injectivity_table_size", json!(injective.lock().unwrap().len()));
    let mut l = Local::default();
    check_unencodable(ex.pid, "c03", &injective, &|h| {
        let good = coset::ProtectedHeader::default();
        let mut v = Vec::new();
        for (ctx, text) in [(coset::SignatureContext::CoseSignature, "Signature"), (coset::SignatureContext::CoseSign1, "Signature1"), (coset::SignatureContext::CounterSignature, "CounterSignature")] {
            if let Ok(o) = catch(|| coset::sig_structure_data(ctx, h.clone(), None, b"", b"")) {
                v.push((format!("sig_structure_data[{}] body", text), o));
            }
            if let Ok(o) = catch(|| coset::sig_structure_data(ctx, good.clone(), Some(h.clone()), b"", b"")) {
                v.push((format!("sig_structure_data[{}] signer", text), o));
            }
        }
        v
    }, &mut l);
    edited_after_decode(ex, "S", &mut l);
    built_then_edited(ex, "S", &mut l);
    ex.rep.merge(l);
}

fn cx_global(pid: &str, l: &mut Local, what: &str, a: String, b: String) {
    l.viol(crate::mc::Viol { key: format!("{}:{}", pid, what), space: "c03".into(), case: format!("{} vs {}", a, b), direct: None, expected: "distinct inputs give distinct structures".into(), observed: "same bytes".into() });
}

/// All CoseSign1Builder create routes with a header built in memory.
fn sign1_builder_routes(cx: &Cx, h: &RHeader, aad: &[u8], payload: &[u8], l: &mut Local) {
    let ch = subject::c_header(h).unwrap();
    let hb = crypto::protected_bytes_of(&coset::ProtectedHeader { original_data: None, header: ch.clone() }).unwrap_or_default();
    let rec: RefCell<Vec<Vec<u8>>> = RefCell::new(vec![]);
    let check = |l: &mut Local, what: &str, want: Vec<u8>, got: Option<Vec<u8>>| {
        l.impl_checked += 1;
        l.count("builder_routes_compared");
        match got {
            Some(g) if g == want => {}
            Some(g) => cx.viol(l, what, hex(&want), hex(&g)),
            None => cx.viol(l, &format!("{}:closure-not-called", what), "called".into(), "not called".into()),
        }
    };
    // embedded
    let want = sig_structure("Signature1", &hb, None, aad, payload);
    rec.borrow_mut().clear();
    let r = catch(|| CoseSign1Builder::new().protected(ch.clone()).payload(payload.to_vec()).create_signature(aad, |d| { rec.borrow_mut().push(d.to_vec()); b"S".to_vec() }).build());
    match r {
        Ok(m) => {
            check(l, "Sign1Builder.create_signature:data", want.clone(), rec.borrow().first().cloned());
            if m.signature != b"S" {
                cx.viol(l, "Sign1Builder.create_signature:signature-not-stored", "S".into(), hex(&m.signature));
            }
        }
        Err(p) => cx.viol(l, "Sign1Builder.create_signature:panic", "no panic".into(), p),
    }
    rec.borrow_mut().clear();
    let r = catch(|| CoseSign1Builder::new().protected(ch.clone()).payload(payload.to_vec()).try_create_signature(aad, |d| -> Result<Vec<u8>, String> { rec.borrow_mut().push(d.to_vec()); Ok(b"S".to_vec()) }).map(|b| b.build()));
    match r {
        Ok(Ok(_)) => check(l, "Sign1Builder.try_create_signature:data", want.clone(), rec.borrow().first().cloned()),
        Ok(Err(e)) => cx.viol(l, "Sign1Builder.try_create_signature:spurious-error", "Ok".into(), e),
        Err(p) => cx.viol(l, "Sign1Builder.try_create_signature:panic", "no panic".into(), p),
    }
    let r = catch(|| CoseSign1Builder::new().protected(ch.clone()).payload(payload.to_vec()).try_create_signature(aad, |_d| -> Result<Vec<u8>, String> { Err("E".into()) }).map(|b| b.build()));
    match r {
        Ok(Err(e)) if e == "E" => {}
        Ok(x) => cx.viol(l, "Sign1Builder.try_create_signature:error-not-returned", "Err(E)".into(), format!("{:?}", x.map(|_| "message"))),
        Err(p) => cx.viol(l, "Sign1Builder.try_create_signature:panic", "no panic".into(), p),
    }
    // no payload at all: empty bstr in the payload slot
    let want_absent = sig_structure("Signature1", &hb, None, aad, b"");
    rec.borrow_mut().clear();
    if catch(|| CoseSign1Builder::new().protected(ch.clone()).create_signature(aad, |d| { rec.borrow_mut().push(d.to_vec()); vec![] }).build()).is_ok() {
        check(l, "Sign1Builder.create_signature[no payload]:data", want_absent, rec.borrow().first().cloned());
    }
    // detached
    rec.borrow_mut().clear();
    let r = catch(|| CoseSign1Builder::new().protected(ch.clone()).create_detached_signature(payload, aad, |d| { rec.borrow_mut().push(d.to_vec()); b"S".to_vec() }).build());
    match r {
        Ok(m) => {
            check(l, "Sign1Builder.create_detached_signature:data", want.clone(), rec.borrow().first().cloned());
            if m.payload.is_some() {
                cx.viol(l, "Sign1Builder.create_detached_signature:payload-stored", "payload stays absent".into(), "present".into());
            }
        }
        Err(p) => cx.viol(l, "Sign1Builder.create_detached_signature:panic", "no panic".into(), p),
    }
    rec.borrow_mut().clear();
    let r = catch(|| CoseSign1Builder::new().protected(ch.clone()).try_create_detached_signature(payload, aad, |d| -> Result<Vec<u8>, String> { rec.borrow_mut().push(d.to_vec()); Ok(vec![]) }).map(|b| b.build()));
    if let Ok(Ok(_)) = r {
        check(l, "Sign1Builder.try_create_detached_signature:data", want.clone(), rec.borrow().first().cloned());
    } else {
        cx.viol(l, "Sign1Builder.try_create_detached_signature:failed", "Ok".into(), "Err or panic".into());
    }
    // detached with a payload set: documented panic, closure not called
    rec.borrow_mut().clear();
    let r = catch(|| CoseSign1Builder::new().protected(ch.clone()).payload(b"p".to_vec()).create_detached_signature(payload, aad, |d| { rec.borrow_mut().push(d.to_vec()); vec![] }).build());
    if r.is_ok() || !rec.borrow().is_empty() {
        cx.viol(l, "Sign1Builder.create_detached_signature:no-documented-panic", "panic when a payload is set".into(), "returned / closure called".into());
    } else {
        l.count("documented_panics_observed");
    }
}

fn sign_builder_routes(cx: &Cx, h: &RHeader, sp: &RProtected, aad: &[u8], payload: &[u8], l: &mut Local) {
    let ch = subject::c_header(h).unwrap();
    let hb = crypto::protected_bytes_of(&coset::ProtectedHeader { original_data: None, header: ch.clone() }).unwrap_or_default();
    let csig = subject::c_signature(&RSignature { protected: sp.clone(), unprotected: RHeader::default(), signature: vec![] }).unwrap();
    let sb = crypto::protected_bytes_of(&csig.protected).unwrap_or_default();
    let want = sig_structure("Signature", &hb, Some(&sb), aad, payload);
    let rec: RefCell<Vec<Vec<u8>>> = RefCell::new(vec![]);
    let check = |l: &mut Local, what: &str, got: Option<Vec<u8>>| {
        l.impl_checked += 1;
        l.count("builder_routes_compared");
        match got {
            Some(g) if g == want => {}
            Some(g) => cx.viol(l, what, hex(&want), hex(&g)),
            None => cx.viol(l, &format!("{}:closure-not-called", what), "called".into(), "not called".into()),
        }
    };
    rec.borrow_mut().clear();
    match catch(|| CoseSignBuilder::new().protected(ch.clone()).payload(payload.to_vec()).add_created_signature(csig.clone(), aad, |d| { rec.borrow_mut().push(d.to_vec()); b"S".to_vec() }).build()) {
        Ok(m) => {
            check(l, "SignBuilder.add_created_signature:data", rec.borrow().first().cloned());
            if m.signatures.len() != 1 || m.signatures[0].signature != b"S" {
                cx.viol(l, "SignBuilder.add_created_signature:signature-not-stored", "one signer with signature S".into(), format!("{:?}", m.signatures));
            }
        }
        Err(p) => cx.viol(l, "SignBuilder.add_created_signature:panic", "no panic".into(), p),
    }
    rec.borrow_mut().clear();
    match catch(|| CoseSignBuilder::new().protected(ch.clone()).payload(payload.to_vec()).try_add_created_signature(csig.clone(), aad, |d| -> Result<Vec<u8>, String> { rec.borrow_mut().push(d.to_vec()); Ok(vec![]) }).map(|b| b.build())) {
        Ok(Ok(_)) => check(l, "SignBuilder.try_add_created_signature:data", rec.borrow().first().cloned()),
        _ => cx.viol(l, "SignBuilder.try_add_created_signature:failed", "Ok".into(), "Err or panic".into()),
    }
    match catch(|| CoseSignBuilder::new().protected(ch.clone()).try_add_created_signature(csig.clone(), aad, |_d| -> Result<Vec<u8>, String> { Err("E".into()) }).map(|b| b.build())) {
        Ok(Err(e)) if e == "E" => {}
        _ => cx.viol(l, "SignBuilder.try_add_created_signature:error-not-returned", "Err(E)".into(), "other".into()),
    }
    rec.borrow_mut().clear();
    match catch(|| CoseSignBuilder::new().protected(ch.clone()).add_detached_signature(csig.clone(), payload, aad, |d| { rec.borrow_mut().push(d.to_vec()); vec![] }).build()) {
        Ok(_) => check(l, "SignBuilder.add_detached_signature:data", rec.borrow().first().cloned()),
        Err(p) => cx.viol(l, "SignBuilder.add_detached_signature:panic", "no panic".into(), p),
    }
    rec.borrow_mut().clear();
    match catch(|| CoseSignBuilder::new().protected(ch.clone()).try_add_detached_signature(csig.clone(), payload, aad, |d| -> Result<Vec<u8>, String> { rec.borrow_mut().push(d.to_vec()); Ok(vec![]) }).map(|b| b.build())) {
        Ok(Ok(_)) => check(l, "SignBuilder.try_add_detached_signature:data", rec.borrow().first().cloned()),
        _ => cx.viol(l, "SignBuilder.try_add_detached_signature:failed", "Ok".into(), "Err or panic".into()),
    }
    rec.borrow_mut().clear();
    let r = catch(|| CoseSignBuilder::new().protected(ch.clone()).payload(b"p".to_vec()).add_detached_signature(csig.clone(), payload, aad, |d| { rec.borrow_mut().push(d.to_vec()); vec![] }).build());
    if r.is_ok() || !rec.borrow().is_empty() {
        cx.viol(l, "SignBuilder.add_detached_signature:no-documented-panic", "panic when a payload is set".into(), "returned / closure called".into());
    } else {
        l.count("documented_panics_observed");
    }
}

// ---------------------------------------------------------------------------------------------
// C04

pub fn run_c04(rep: &Report) -> u64 {
    rep.set_rule("C04: {COSE_Mac, COSE_Mac0} x protected in 8 forms (4 wire, 4 built) x (AAD, payload) over the bstr length classes x payload {present, absent} x 0..2 recipients; routes: mac_structure_data, create_tag, try_create_tag (Ok and Err), verify_tag on built and on decoded messages; oracle: byte equality with the independent deterministic encoder, MAC vs MAC0 outputs never collide, create/verify without payload panics and does not call the closure; non-trivial = all tuples; distinct by output bytes");
    let ex = Ex::own(rep, crate::oracle::Checks::NONE);
    explore_c04(&ex);
    100
}

pub fn explore_c04(ex: &Ex) {
    let mut pal = prot_palette();
    let base = pal.len();
    pal.extend(alg_forms());
    let mut pairs = aad_payload_pairs(ex);
    if ex.scale == Scale::Quick {
        // the 1 MiB class of the thorough tier, for this (cheap) property in the quick tier too:
        // placed after the first four pairs so that only the base forms meet it
        pairs.push((vec![], gen::pattern(1 << 20)));
        pairs.push((gen::pattern(1 << 20), vec![0x01]));
    }
    ex.bound("c04", "protected_forms", json!(pal.len()));
    ex.bound("c04", "aad_payload_pairs", json!(pairs.len()));
    let table: std::sync::Mutex<std::collections::HashMap<Vec<u8>, String>> = std::sync::Mutex::new(std::collections::HashMap::new());
    par_partitions(ex.rep, (0..pal.len()).collect(), |bi, l| {
        let body = &pal[*bi];
        let rec1 = crate::spaces::c11::recipient_reps();
        for (aad, payload) in pairs.iter().take(if *bi >= base { 4 } else { pairs.len() }) {
            l.state(1);
            let case = format!("protected={} aad_len={} payload_len={}", bi, aad.len(), payload.len());
            if let Ok(only) = std::env::var("VERIF_ONLY_CASE") {
                if only != case {
                    continue;
                }
            }
            let cx = Cx { pid: ex.pid, space: "c04", case: &case, exact: true, fams: "M", slots_only: false, body_override: None };
            check_built_slot(&cx, body, l);
            l.nontrivial(&case);
            if l.samples.is_empty() {
                l.sample(|| json!({"space": "c04", "case": case, "protected": format!("{:?}", body)}));
            }
            for pl in [Some(payload.clone()), None] {
                for nrec in 0..=2usize {
                    if nrec > 0 && payload.len() > 256 {
                        continue;
                    }
                    let m = subject::c_mac(&RMac { protected: body.clone(), unprotected: RHeader::default(), payload: pl.clone(), tag: b"tag".to_vec(), recipients: rec1[..nrec].to_vec() }).unwrap();
                    crypto::mac(&cx, &m, &[aad], l);
                    // the same message after a trip over the wire
                    if let Ok(Ok(bytes)) = catch(|| coset::CborSerializable::to_vec(m.clone())) {
                        if let Ok(Ok(m2)) = catch(|| <coset::CoseMac as coset::CborSerializable>::from_slice(&bytes)) {
                            crypto::mac(&cx, &m2, &[aad], l);
                        }
                    }
                }
                let m0 = subject::c_mac0(&RMac0 { protected: body.clone(), unprotected: RHeader::default(), payload: pl.clone(), tag: b"tag".to_vec() }).unwrap();
                crypto::mac0(&cx, &m0, &[aad], l);
                if let Ok(Ok(bytes)) = catch(|| coset::CborSerializable::to_vec(m0.clone())) {
                    if let Ok(Ok(m2)) = catch(|| <coset::CoseMac0 as coset::CborSerializable>::from_slice(&bytes)) {
                        crypto::mac0(&cx, &m2, &[aad], l);
                    }
                }
            }
            if body.original.is_none() {
                mac_builder_routes(&cx, &body.header, aad, payload, l);
            }
            // MAC vs MAC0 separation
            if aad.len() <= 256 && payload.len() <= 256 {
                let cb = subject::c_protected(body).unwrap();
                let bb = crypto::protected_bytes_of(&cb).unwrap_or_default();
                let mut t = table.lock().unwrap();
                for (ctx, text) in [(coset::MacContext::CoseMac, "MAC"), (coset::MacContext::CoseMac0, "MAC0")] {
                    if let Ok(out) = catch(|| coset::mac_structure_data(ctx, cb.clone(), aad, payload)) {
                        let tuple = format!("{}|{}|{}|{}", text, hex(&bb), hex(aad), hex(payload));
                        if let Some(prev) = t.insert(out, tuple.clone()) {
                            if prev != tuple {
                                cx.viol(l, "mac-structure-collision", prev, tuple);
                            }
                        }
                    }
                }
            }
        }
    });
    ex.bound("c04", "injectivity_table_size", json!(table.lock().unwrap().len()));
    let mut l = Local::default();
    check_unencodable(ex.pid, "c04", &table, &|h| {
        let mut v = Vec::new();
        for (ctx, text) in [(coset::MacContext::CoseMac, "MAC"), (coset::MacContext::CoseMac0, "MAC0")] {
            if let Ok(o) = catch(|| coset::mac_structure_data(ctx, h.clone(), b"", b"")) {
                v.push((format!("mac_structure_data[{}]", text), o));
            }
        }
        v
    }, &mut l);
    edited_after_decode(ex, "M", &mut l);
    built_then_edited(ex, "M", &mut l);
    ex.rep.merge(l);
}

fn mac_builder_routes(cx: &Cx, h: &RHeader, aad: &[u8], payload: &[u8], l: &mut Local) {
    let ch = subject::c_header(h).unwrap();
    let hb = crypto::protected_bytes_of(&coset::ProtectedHeader { original_data: None, header: ch.clone() }).unwrap_or_default();
    let rec: RefCell<Vec<Vec<u8>>> = RefCell::new(vec![]);
    for (which, text) in [("Mac", "MAC"), ("Mac0", "MAC0")] {
        let want = mac_structure(text, &hb, aad, payload);
        let mut check = |l: &mut Local, what: String, got: Option<Vec<u8>>| {
            l.impl_checked += 1;
            l.count("builder_routes_compared");
            match got {
                Some(g) if g == want => {}
                Some(g) => cx.viol(l, &what, hex(&want), hex(&g)),
                None => cx.viol(l, &format!("{}:closure-not-called", what), "called".into(), "not called".into()),
            }
        };
        // create_tag
        rec.borrow_mut().clear();
        let r = if which == "Mac" {
            catch(|| CoseMacBuilder::new().protected(ch.clone()).payload(payload.to_vec()).create_tag(aad, |d| { rec.borrow_mut().push(d.to_vec()); b"T".to_vec() }).build().tag)
        } else {
            catch(|| CoseMac0Builder::new().protected(ch.clone()).payload(payload.to_vec()).create_tag(aad, |d| { rec.borrow_mut().push(d.to_vec()); b"T".to_vec() }).build().tag)
        };
        match r {
            Ok(tag) => {
                check(l, format!("{}Builder.create_tag:data", which), rec.borrow().first().cloned());
                if tag != b"T" {
                    cx.viol(l, &format!("{}Builder.create_tag:tag-not-stored", which), "T".into(), hex(&tag));
                }
            }
            Err(p) => cx.viol(l, &format!("{}Builder.create_tag:panic", which), "no panic".into(), p),
        }
        // try_create_tag Ok / Err
        rec.borrow_mut().clear();
        let r = if which == "Mac" {
            catch(|| CoseMacBuilder::new().protected(ch.clone()).payload(payload.to_vec()).try_create_tag(aad, |d| -> Result<Vec<u8>, String> { rec.borrow_mut().push(d.to_vec()); Ok(vec![]) }).map(|_| ()))
        } else {
            catch(|| CoseMac0Builder::new().protected(ch.clone()).payload(payload.to_vec()).try_create_tag(aad, |d| -> Result<Vec<u8>, String> { rec.borrow_mut().push(d.to_vec()); Ok(vec![]) }).map(|_| ()))
        };
        match r {
            Ok(Ok(())) => check(l, format!("{}Builder.try_create_tag:data", which), rec.borrow().first().cloned()),
            _ => cx.viol(l, &format!("{}Builder.try_create_tag:failed", which), "Ok".into(), "Err or panic".into()),
        }
        let r = if which == "Mac" {
            catch(|| CoseMacBuilder::new().protected(ch.clone()).payload(payload.to_vec()).try_create_tag(aad, |_d| -> Result<Vec<u8>, String> { Err("E".into()) }).map(|_| ()))
        } else {
            catch(|| CoseMac0Builder::new().protected(ch.clone()).payload(payload.to_vec()).try_create_tag(aad, |_d| -> Result<Vec<u8>, String> { Err("E".into()) }).map(|_| ()))
        };
        match r {
            Ok(Err(e)) if e == "E" => {}
            _ => cx.viol(l, &format!("{}Builder.try_create_tag:error-not-returned", which), "Err(E)".into(), "other".into()),
        }
        // without payload: documented panic, closure not called
        rec.borrow_mut().clear();
        let r = if which == "Mac" {
            catch(|| CoseMacBuilder::new().protected(ch.clone()).create_tag(aad, |d| { rec.borrow_mut().push(d.to_vec()); vec![] }).build().tag)
        } else {
            catch(|| CoseMac0Builder::new().protected(ch.clone()).create_tag(aad, |d| { rec.borrow_mut().push(d.to_vec()); vec![] }).build().tag)
        };
        if r.is_ok() || !rec.borrow().is_empty() {
            cx.viol(l, &format!("{}Builder.create_tag:no-documented-panic", which), "panic without payload".into(), "returned / closure called".into());
        } else {
            l.count("documented_panics_observed");
        }
        rec.borrow_mut().clear();
        let r = if which == "Mac" {
            catch(|| CoseMacBuilder::new().protected(ch.clone()).try_create_tag(aad, |d| -> Result<Vec<u8>, String> { rec.borrow_mut().push(d.to_vec()); Ok(vec![]) }).map(|_| ()))
        } else {
            catch(|| CoseMac0Builder::new().protected(ch.clone()).try_create_tag(aad, |d| -> Result<Vec<u8>, String> { rec.borrow_mut().push(d.to_vec()); Ok(vec![]) }).map(|_| ()))
        };
        if r.is_ok() || !rec.borrow().is_empty() {
            cx.viol(l, &format!("{}Builder.try_create_tag:no-documented-panic", which), "panic without payload".into(), "returned / closure called".into());
        } else {
            l.count("documented_panics_observed");
        }
    }
}

// ---------------------------------------------------------------------------------------------
// C05

pub fn run_c05(rep: &Report) -> u64 {
    rep.set_rule("C05: five contexts x protected in 8 forms (4 wire, 4 built) x AAD over the bstr length classes x ciphertext {present, absent} x plaintext classes; carriers COSE_Encrypt, COSE_Encrypt0, COSE_recipient (top level, nested in Encrypt/Mac/recipient); routes: enc_structure_data, create_ciphertext, try_create_ciphertext (Ok and Err), decrypt on built and decoded values; oracle: byte equality with the independent deterministic encoder, no two contexts collide, recipient operations with a non-recipient context panic, decrypt without ciphertext panics, plaintext/ciphertext passed through untouched; non-trivial = all tuples; distinct by output bytes");
    let ex = Ex::own(rep, crate::oracle::Checks::NONE);
    explore_c05(&ex);
    100
}

pub fn explore_c05(ex: &Ex) {
    let mut pal = prot_palette();
    let base = pal.len();
    pal.extend(alg_forms());
    let cls = bstr_classes(ex);
    ex.bound("c05", "protected_forms", json!(pal.len()));
    ex.bound("c05", "aad_classes", json!(cls.iter().map(|c| c.len()).collect::<Vec<_>>()));
    let table: std::sync::Mutex<std::collections::HashMap<Vec<u8>, String>> = std::sync::Mutex::new(std::collections::HashMap::new());
    let recs = crate::spaces::c11::recipient_reps();
    // the algorithm named in a recipient's *unprotected* header (protected header empty) has no
    // say in what the cipher is handed
    {
        let algs: Vec<i64> = crate::refiana::table(crate::refiana::Reg::Algorithm).iter().map(|(_, a)| *a).collect();
        par_partitions(ex.rep, algs, |a, l| {
            for aad in [&b""[..], &b"x"[..]] {
                let case = format!("recipient unprotected alg={} aad_len={}", a, aad.len());
                if let Ok(only) = std::env::var("VERIF_ONLY_CASE") {
                    if only != case {
                        continue;
                    }
                }
                l.state(1);
                l.nontrivial(&case);
                let cx = Cx { pid: ex.pid, space: "c05.recipient_alg", case: &case, exact: true, fams: "E", slots_only: false, body_override: None };
                let un = RHeader { alg: Some(l_int(*a)), ..Default::default() };
                for prot in [RProtected::default(), RProtected { original: Some(vec![]), header: RHeader::default() }, RProtected { original: Some(vec![0xa0]), header: RHeader::default() }] {
                    let r = RRecipient { protected: prot.clone(), unprotected: un.clone(), ciphertext: Some(b"wrapped".to_vec()), recipients: vec![] };
                    crypto::recipient_top(&cx, &subject::c_recipient(&r).unwrap(), &[aad], l);
                    let e = subject::c_encrypt(&REncrypt { protected: RProtected::default(), unprotected: RHeader::default(), ciphertext: Some(b"ct".to_vec()), recipients: vec![r.clone()] }).unwrap();
                    crypto::encrypt(&cx, &e, &[aad], l);
                }
            }
        });
    }
    par_partitions(ex.rep, (0..pal.len()).collect(), |bi, l| {
        let body = &pal[*bi];
        for aad in cls.iter().take(if *bi >= base { 3 } else { cls.len() }) {
            for ct in [Some(cls[(aad.len() + 1) % cls.len()].clone()), Some(vec![]), None] {
                l.state(1);
                let case = format!("protected={} aad_len={} ciphertext={:?}", bi, aad.len(), ct.as_ref().map(|c| c.len()));
                if let Ok(only) = std::env::var("VERIF_ONLY_CASE") {
                    if only != case {
                        continue;
                    }
                }
                let cx = Cx { pid: ex.pid, space: "c05", case: &case, exact: true, fams: "E", slots_only: false, body_override: None };
                check_built_slot(&cx, body, l);
                l.nontrivial(&case);
                if l.samples.is_empty() {
                    l.sample(|| json!({"space": "c05", "case": case, "protected": format!("{:?}", body)}));
                }
                let e0 = subject::c_encrypt0(&REncrypt0 { protected: body.clone(), unprotected: RHeader::default(), ciphertext: ct.clone() }).unwrap();
                crypto::encrypt0(&cx, &e0, &[aad], l);
                let r = RRecipient { protected: body.clone(), unprotected: RHeader::default(), ciphertext: ct.clone(), recipients: vec![] };
                let nested = RRecipient { protected: pal[(bi + 3) % pal.len()].clone(), unprotected: RHeader::default(), ciphertext: Some(b"k".to_vec()), recipients: vec![r.clone(), recs[1].clone()] };
                let e = subject::c_encrypt(&REncrypt { protected: body.clone(), unprotected: RHeader::default(), ciphertext: ct.clone(), recipients: vec![
                        r.clone(),
                        nested.clone(),
                        // two more, pairwise different (an order or index slip shows from three on)
                        RRecipient { protected: pal[(bi + 1) % pal.len()].clone(), unprotected: RHeader { key_id: b"r3".to_vec(), ..Default::default() }, ciphertext: Some(b"c3".to_vec()), recipients: vec![] },
                        RRecipient { protected: pal[(bi + 5) % pal.len()].clone(), unprotected: RHeader::default(), ciphertext: Some(b"c4".to_vec()), recipients: vec![] },
                    ] }).unwrap();
                crypto::encrypt(&cx, &e, &[aad], l);
                crypto::recipient_top(&cx, &subject::c_recipient(&nested).unwrap(), &[aad], l);
                let m = subject::c_mac(&RMac { protected: RProtected::default(), unprotected: RHeader::default(), payload: Some(b"p".to_vec()), tag: vec![], recipients: vec![nested.clone()] }).unwrap();
                crypto::mac(&cx, &m, &[aad], l);
                // decoded forms
                if let Ok(Ok(bytes)) = catch(|| coset::CborSerializable::to_vec(e.clone())) {
                    if let Ok(Ok(e2)) = catch(|| <coset::CoseEncrypt as coset::CborSerializable>::from_slice(&bytes)) {
                        crypto::encrypt(&cx, &e2, &[aad], l);
                    }
                }
                if body.original.is_none() && ct.is_some() {
                    enc_builder_routes(&cx, &body.header, aad, ct.as_ref().unwrap(), l);
                }
            }
            // context separation
            if aad.len() <= 256 {
                let cb = subject::c_protected(body).unwrap();
                let bb = crypto::protected_bytes_of(&cb).unwrap_or_default();
                let mut t = table.lock().unwrap();
                for (ctx, text) in [
                    (EncryptionContext::CoseEncrypt, "Encrypt"),
                    (EncryptionContext::CoseEncrypt0, "Encrypt0"),
                    (EncryptionContext::EncRecipient, "Enc_Recipient"),
                    (EncryptionContext::MacRecipient, "Mac_Recipient"),
                    (EncryptionContext::RecRecipient, "Rec_Recipient"),
                ] {
                    if let Ok(out) = catch(|| coset::enc_structure_data(ctx, cb.clone(), aad)) {
                        let want = enc_structure(text, &bb, aad);
                        l.impl_checked += 1;
                        if out != want {
                            l.viol(crate::mc::Viol { key: format!("{}:enc_structure_data[{}]", ex.pid, text), space: "c05".into(), case: format!("protected={} aad_len={}", bi, aad.len()), direct: None, expected: hex(&want), observed: hex(&out) });
                        }
                        let tuple = format!("{}|{}|{}", text, hex(&bb), hex(aad));
                        if let Some(prev) = t.insert(out, tuple.clone()) {
                            if prev != tuple {
                                l.viol(crate::mc::Viol { key: format!("{}:enc-structure-collision", ex.pid), space: "c05".into(), case: format!("{} vs {}", prev, tuple), direct: None, expected: "distinct".into(), observed: "same bytes".into() });
                            }
                        }
                    }
                }
            }
        }
    });
    ex.bound("c05", "injectivity_table_size", json!(table.lock().unwrap().len()));
    let mut l = Local::default();
    check_unencodable(ex.pid, "c05", &table, &|h| {
        let mut v = Vec::new();
        for (ctx, text) in [(EncryptionContext::CoseEncrypt, "Encrypt"), (EncryptionContext::CoseEncrypt0, "Encrypt0"), (EncryptionContext::EncRecipient, "Enc_Recipient"), (EncryptionContext::MacRecipient, "Mac_Recipient"), (EncryptionContext::RecRecipient, "Rec_Recipient")] {
            if let Ok(o) = catch(|| coset::enc_structure_data(ctx, h.clone(), b"")) {
                v.push((format!("enc_structure_data[{}]", text), o));
            }
        }
        v
    }, &mut l);
    edited_after_decode(ex, "E", &mut l);
    built_then_edited(ex, "E", &mut l);
    ex.rep.merge(l);
}

fn enc_builder_routes(cx: &Cx, h: &RHeader, aad: &[u8], plaintext: &[u8], l: &mut Local) {
    let ch = subject::c_header(h).unwrap();
    let hb = crypto::protected_bytes_of(&coset::ProtectedHeader { original_data: None, header: ch.clone() }).unwrap_or_default();
    let rec: RefCell<Vec<(Vec<u8>, Vec<u8>)>> = RefCell::new(vec![]);
    let check = |l: &mut Local, what: String, want: &[u8], got: Option<(Vec<u8>, Vec<u8>)>, stored: Option<Vec<u8>>| {
        l.impl_checked += 1;
        l.count("builder_routes_compared");
        match got {
            Some((pt, a)) => {
                if a != want {
                    cx.viol(l, &format!("{}:aad", what), hex(want), hex(&a));
                }
                if pt != plaintext {
                    cx.viol(l, &format!("{}:plaintext-not-passed-through", what), hex(plaintext), hex(&pt));
                }
            }
            None => cx.viol(l, &format!("{}:closure-not-called", what), "called".into(), "not called".into()),
        }
        if stored.as_deref() != Some(b"CT") {
            cx.viol(l, &format!("{}:ciphertext-not-stored", what), "CT".into(), format!("{:?}", stored));
        }
    };
    let want_e = enc_structure("Encrypt", &hb, aad);
    rec.borrow_mut().clear();
    match catch(|| CoseEncryptBuilder::new().protected(ch.clone()).create_ciphertext(plaintext, aad, |p, a| { rec.borrow_mut().push((p.to_vec(), a.to_vec())); b"CT".to_vec() }).build().ciphertext) {
        Ok(ct) => check(l, "EncryptBuilder.create_ciphertext".into(), &want_e, rec.borrow().first().cloned(), ct),
        Err(p) => cx.viol(l, "EncryptBuilder.create_ciphertext:panic", "no panic".into(), p),
    }
    rec.borrow_mut().clear();
    match catch(|| CoseEncryptBuilder::new().protected(ch.clone()).try_create_ciphertext(plaintext, aad, |p, a| -> Result<Vec<u8>, String> { rec.borrow_mut().push((p.to_vec(), a.to_vec())); Ok(b"CT".to_vec()) }).map(|b| b.build().ciphertext)) {
        Ok(Ok(ct)) => check(l, "EncryptBuilder.try_create_ciphertext".into(), &want_e, rec.borrow().first().cloned(), ct),
        _ => cx.viol(l, "EncryptBuilder.try_create_ciphertext:failed", "Ok".into(), "Err or panic".into()),
    }
    match catch(|| CoseEncryptBuilder::new().protected(ch.clone()).try_create_ciphertext(plaintext, aad, |_p, _a| -> Result<Vec<u8>, String> { Err("E".into()) }).map(|_| ())) {
        Ok(Err(e)) if e == "E" => {}
        _ => cx.viol(l, "EncryptBuilder.try_create_ciphertext:error-not-returned", "Err(E)".into(), "other".into()),
    }
    let want_0 = enc_structure("Encrypt0", &hb, aad);
    rec.borrow_mut().clear();
    match catch(|| CoseEncrypt0Builder::new().protected(ch.clone()).create_ciphertext(plaintext, aad, |p, a| { rec.borrow_mut().push((p.to_vec(), a.to_vec())); b"CT".to_vec() }).build().ciphertext) {
        Ok(ct) => check(l, "Encrypt0Builder.create_ciphertext".into(), &want_0, rec.borrow().first().cloned(), ct),
        Err(p) => cx.viol(l, "Encrypt0Builder.create_ciphertext:panic", "no panic".into(), p),
    }
    rec.borrow_mut().clear();
    match catch(|| CoseEncrypt0Builder::new().protected(ch.clone()).try_create_ciphertext(plaintext, aad, |p, a| -> Result<Vec<u8>, String> { rec.borrow_mut().push((p.to_vec(), a.to_vec())); Ok(b"CT".to_vec()) }).map(|b| b.build().ciphertext)) {
        Ok(Ok(ct)) => check(l, "Encrypt0Builder.try_create_ciphertext".into(), &want_0, rec.borrow().first().cloned(), ct),
        _ => cx.viol(l, "Encrypt0Builder.try_create_ciphertext:failed", "Ok".into(), "Err or panic".into()),
    }
    match catch(|| CoseEncrypt0Builder::new().protected(ch.clone()).try_create_ciphertext(plaintext, aad, |_p, _a| -> Result<Vec<u8>, String> { Err("E".into()) }).map(|_| ())) {
        Ok(Err(e)) if e == "E" => {}
        _ => cx.viol(l, "Encrypt0Builder.try_create_ciphertext:error-not-returned", "Err(E)".into(), "other".into()),
    }
    for (ctx, text) in crypto::REC_CONTEXTS {
        let want = enc_structure(text, &hb, aad);
        rec.borrow_mut().clear();
        match catch(|| CoseRecipientBuilder::new().protected(ch.clone()).create_ciphertext(ctx, plaintext, aad, |p, a| { rec.borrow_mut().push((p.to_vec(), a.to_vec())); b"CT".to_vec() }).build().ciphertext) {
            Ok(ct) => check(l, format!("RecipientBuilder.create_ciphertext[{}]", text), &want, rec.borrow().first().cloned(), ct),
            Err(p) => cx.viol(l, "RecipientBuilder.create_ciphertext:panic", "no panic".into(), p),
        }
        rec.borrow_mut().clear();
        match catch(|| CoseRecipientBuilder::new().protected(ch.clone()).try_create_ciphertext(ctx, plaintext, aad, |p, a| -> Result<Vec<u8>, String> { rec.borrow_mut().push((p.to_vec(), a.to_vec())); Ok(b"CT".to_vec()) }).map(|b| b.build().ciphertext)) {
            Ok(Ok(ct)) => check(l, format!("RecipientBuilder.try_create_ciphertext[{}]", text), &want, rec.borrow().first().cloned(), ct),
            _ => cx.viol(l, "RecipientBuilder.try_create_ciphertext:failed", "Ok".into(), "Err or panic".into()),
        }
        match catch(|| CoseRecipientBuilder::new().protected(ch.clone()).try_create_ciphertext(ctx, plaintext, aad, |_p, _a| -> Result<Vec<u8>, String> { Err("E".into()) }).map(|_| ())) {
            Ok(Err(e)) if e == "E" => {}
            _ => cx.viol(l, "RecipientBuilder.try_create_ciphertext:error-not-returned", "Err(E)".into(), "other".into()),
        }
    }
    for ctx in [EncryptionContext::CoseEncrypt, EncryptionContext::CoseEncrypt0] {
        rec.borrow_mut().clear();
        let r = catch(|| CoseRecipientBuilder::new().protected(ch.clone()).create_ciphertext(ctx, plaintext, aad, |p, a| { rec.borrow_mut().push((p.to_vec(), a.to_vec())); vec![] }).build().ciphertext);
        if r.is_ok() || !rec.borrow().is_empty() {
            cx.viol(l, "RecipientBuilder.create_ciphertext:no-documented-panic", "panic for a non-recipient context".into(), "returned / closure called".into());
        } else {
            l.count("documented_panics_observed");
        }
        rec.borrow_mut().clear();
        let r = catch(|| CoseRecipientBuilder::new().protected(ch.clone()).try_create_ciphertext(ctx, plaintext, aad, |p, a| -> Result<Vec<u8>, String> { rec.borrow_mut().push((p.to_vec(), a.to_vec())); Ok(vec![]) }).map(|_| ()));
        if r.is_ok() || !rec.borrow().is_empty() {
            cx.viol(l, "RecipientBuilder.try_create_ciphertext:no-documented-panic", "panic for a non-recipient context".into(), "returned / closure called".into());
        } else {
            l.count("documented_panics_observed");
        }
    }
}
