//! C14 — tagged forms carry exactly the structure's registered CBOR tag.

use super::{c09, Ex, Scale};
use crate::gen;
use crate::mc::{par_partitions, Report, Viol};
use crate::oracle::{ty_name, Checks, Entry};
use crate::refcbor::{hex, min_w, wider, Enc, Item};
use crate::refcose::{tag_of, TAGGED_TYPES};
use crate::subject::{self, Outcome};
use serde_json::json;

pub const CHECKS: Checks = Checks { iff: true, fixed_point: true, layers: true, ..Checks::NONE };

pub fn run(rep: &Report) -> u64 {
    rep.set_rule("C14: 6 taggable types x 16 tag numbers x every legal head width of the tag x bodies (accepted by this type, accepted by a shape-sharing type only, rejected by all, non-array) x {untagged, tagged once, tagged twice}, through the tagged and the untagged entry point; to_tagged_vec compared bytewise with tag head || to_vec; non-trivial = must-accept or single-fault; distinct by (type, entry, bytes)");
    rep.assume("registered tag numbers are those of RFC 8152 table 1 (refcose::tag_of)");
    explore(&Ex::own(rep, CHECKS));
    500
}

pub const TAGS: [u64; 16] = [16, 17, 18, 96, 97, 98, 15, 19, 95, 99, 0, 1, 24, 61, 55799, u64::MAX];

fn tag_widths(t: u64) -> Vec<u8> {
    let m = min_w(t);
    let mut v = vec![m];
    v.extend_from_slice(wider(m));
    v
}

pub fn explore(ex: &Ex) {
    let mut bodies: Vec<Item> = c09::valid_messages().into_iter().map(|(_, i)| i).collect();
    bodies.push(gen::arr(vec![gen::b(b""), gen::map(vec![]), gen::u(1), gen::b(b"")]));
    bodies.push(gen::arr(vec![]));
    bodies.push(gen::map(vec![]));
    // lists whose elements are related (same key id, equal elements): both entry points agree
    bodies.push(gen::arr(vec![gen::b(b""), gen::map(vec![]), gen::b(b"p"), gen::arr(vec![gen::sig_valid2(), gen::sig_valid(), gen::sig_valid2()])]));
    {
        let r = gen::arr(vec![gen::b(b""), gen::map(vec![(gen::u(4), gen::b(b"k"))]), gen::b(b"c")]);
        bodies.push(gen::arr(vec![gen::b(b""), gen::map(vec![]), gen::b(b"c"), gen::arr(vec![r.clone(), r.clone()])]));
        bodies.push(gen::arr(vec![gen::b(b""), gen::map(vec![]), gen::b(b"p"), gen::b(b"t"), gen::arr(vec![r.clone(), gen::arr(vec![gen::b(b""), gen::map(vec![]), gen::b(b"x")]), r])]));
    }
    bodies.push(gen::b(b"\x84\x40\xa0\xf6\x40"));
    // an opaque header value that itself carries one of the registered tags (say, an embedded
    // tagged COSE message): only the tag on the structure itself is the structure's tag
    for t in [16u64, 17, 18, 96, 97, 98] {
        let un = gen::map(vec![(gen::u(99), Item::tag(t, gen::arr(vec![gen::b(b""), gen::map(vec![]), crate::refcbor::NULL, gen::b(b"")])))]);
        let rec = gen::arr(vec![gen::b(b""), gen::map(vec![]), gen::b(b"k")]);
        bodies.push(gen::arr(vec![gen::b(b""), un.clone(), crate::refcbor::NULL, gen::b(b"")]));
        bodies.push(gen::arr(vec![gen::b(b""), un.clone(), crate::refcbor::NULL]));
        bodies.push(gen::arr(vec![gen::b(b""), un.clone(), crate::refcbor::NULL, gen::arr(vec![gen::sig_valid()])]));
        bodies.push(gen::arr(vec![gen::b(b""), un.clone(), gen::b(b"c"), gen::arr(vec![rec.clone()])]));
        bodies.push(gen::arr(vec![gen::b(b""), un.clone(), crate::refcbor::NULL, gen::b(b""), gen::arr(vec![rec.clone()])]));
    }
    if ex.scale == Scale::Thorough {
        for arity in [3usize, 4, 5] {
            let tiny = gen::msg_slots_tiny();
            crate::mc::odometer(&vec![tiny.len(); arity], |d| {
                bodies.push(Item::Array(d.iter().map(|x| tiny[*x].clone()).collect()));
            });
        }
    }
    // the tagged entry point sees the same body however its lists and heads are spelt: every
    // encoding within one deviation of each valid message, under its own tag
    {
        let msgs: Vec<(crate::refcose::Ty, Item)> = c09::valid_messages().into_iter().filter(|(t, _)| tag_of(*t).is_some()).collect();
        par_partitions(ex.rep, msgs, |(ty, it), l| {
            let own = tag_of(*ty).unwrap();
            for (lvl, e) in crate::refcbor::encodings(it, 1, &crate::refcbor::DevOpts::NO_BIGNUM) {
                l.state(lvl as u64);
                let b1 = Enc::Tag(own, min_w(own), Box::new(e)).to_bytes();
                ex.decode(l, "c14.encodings", *ty, Entry::Tagged, &b1);
            }
        });
    }
    ex.bound("c14", "bodies", json!(bodies.len()));
    ex.bound("c14", "tags", json!(TAGS.to_vec()));
    par_partitions(ex.rep, bodies, |body, l| {
        let be = Enc::canonical(body);
        for ty in TAGGED_TYPES {
            let own = tag_of(ty).unwrap();
            // untagged body through both entry points
            l.state(0);
            let raw = be.to_bytes();
            ex.decode(l, "c14", ty, Entry::Tagged, &raw);
            ex.decode(l, "c14", ty, Entry::Slice, &raw);
            // encode side: tagged encoding = tag head || untagged encoding
            if let Outcome::Ok(v) = subject::decode(ty, &raw) {
                if let (Outcome::Ok(u), Some(Outcome::Ok(t))) = (v.to_vec(), v.to_tagged_vec()) {
                    let mut want = Enc::Tag(own, min_w(own), Box::new(Enc::UInt(0, 0))).to_bytes();
                    want.pop();
                    want.extend_from_slice(&u);
                    l.count("c14.tagged_encoding_compared");
                    l.impl_checked += 1;
                    if t != want {
                        l.viol(Viol {
                            key: format!("C14:tagged-encoding:{}", ty_name(ty)),
                            space: "c14".into(),
                            case: format!("{} slice {}", ty_name(ty), hex(&raw)),
                            direct: None,
                            expected: hex(&want),
                            observed: hex(&t),
                        });
                    }
                }
            }
            // the correctly tagged item wrapped once more (byte string, encoded-CBOR tag 24, one-element
            // array, map value): only the tag directly on the structure counts
            {
                let tagged = Enc::Tag(own, min_w(own), Box::new(be.clone())).to_bytes();
                let wrapped: Vec<Vec<u8>> = vec![
                    Item::Bytes(tagged.clone()).det(),
                    Item::tag(24, Item::Bytes(tagged.clone())).det(),
                    Item::tag(own, Item::Bytes(raw.clone())).det(),
                    Item::tag(own, Item::Bytes(tagged.clone())).det(),
                    [&[0x81u8][..], &tagged].concat(),
                    [&[0xa1u8, 0x00][..], &tagged].concat(),
                    Item::Bytes(raw.clone()).det(),
                ];
                for w in wrapped {
                    l.state(1);
                    ex.decode(l, "c14", ty, Entry::Tagged, &w);
                    ex.decode(l, "c14", ty, Entry::Slice, &w);
                }
            }
            // the registered tag plus multiples of 2^8, 2^16, 2^32 (truncating head decoders)
            let mut tags: Vec<u64> = TAGS.to_vec();
            tags.extend([own + (1 << 8), own + (1 << 16), own + (1 << 32), own + (1 << 63)]);
            for t1 in tags {
                for w1 in tag_widths(t1) {
                    let once = Enc::Tag(t1, w1, Box::new(be.clone()));
                    let b1 = once.to_bytes();
                    l.state(1);
                    if t1 == own && w1 == min_w(t1) {
                        l.sample(|| json!({"space": "c14", "type": ty_name(ty), "hex": hex(&b1)}));
                    }
                    ex.decode(l, "c14", ty, Entry::Tagged, &b1);
                    ex.decode(l, "c14", ty, Entry::Slice, &b1);
                    // doubly tagged: own tag outside or inside
                    if w1 == min_w(t1) {
                        for (outer, inner) in [(own, t1), (t1, own)] {
                            let twice = Enc::Tag(outer, min_w(outer), Box::new(Enc::Tag(inner, min_w(inner), Box::new(be.clone()))));
                            let b2 = twice.to_bytes();
                            l.state(2);
                            ex.decode(l, "c14", ty, Entry::Tagged, &b2);
                            ex.decode(l, "c14", ty, Entry::Slice, &b2);
                        }
                    }
                }
            }
        }
    });
}
