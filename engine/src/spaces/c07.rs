//! C07 — decode-encode reaches a fixed point in one step and loses nothing.

use super::{c08, c09, c10, c12, c14, c15, c18, Ex, Scale};
use crate::gen::{self, arr, b, bwrap, i, map, t, u};
use crate::mc::{par_partitions, Report, Tier};
use crate::oracle::{Checks, Entry};
use crate::refcbor::{encodings, hex, DevOpts, Enc, Item, NULL, UNDEFINED};
use crate::refcose::Ty;
use serde_json::json;

pub const CHECKS: Checks = Checks { fixed_point: true, ..Checks::NONE };

pub fn run(rep: &Report) -> u64 {
    rep.set_rule("C07: every input of the structured spaces of C08, C09, C10, C12, C14, C15, C18 (all types, valid and invalid, all encodings within the deviation bound) plus dedicated non-canonical families (bignum-tagged integers in every integer position, indefinite lengths everywhere, 4-element recipients with an empty list, reordered and non-minimal key_ops, floats of every width incl. NaN payloads and -0.0, undefined where nil is accepted, chunked protected bstr); for each accepted input: encode succeeds, output is definite-length CBOR, decodes to an equal value (Debug-equal incl. retained protected bytes, NaN-tolerant), re-encodes to the same bytes, also through the tagged forms; non-trivial = accepted inputs whose re-encoding differs from the input; distinct by bytes");
    let scale = match rep.tier {
        Tier::Quick => Scale::Quick,
        Tier::Thorough => Scale::Thorough,
    };
    let ex = Ex { rep, pid: "C07", checks: CHECKS, scale };
    c08::explore(&ex);
    c09::explore(&ex);
    c10::explore(&ex);
    c12::explore(&ex);
    c14::explore(&ex);
    c15::explore(&ex);
    c18::explore(&ex);
    families(&Ex { rep, pid: "C07", checks: CHECKS, scale: if rep.tier == Tier::Quick { Scale::Quick } else { Scale::Thorough } });
    1000
}

/// The non-canonical families the property names.
pub fn families(ex: &Ex) {
    let prot = bwrap(&map(vec![(u(1), i(-7)), (u(4), b(b"kid"))]));
    let up = map(vec![(u(5), b(b"iv")), (u(99), arr(vec![u(1), Item::float(1.5)]))]);
    let rec = arr(vec![b(b""), map(vec![]), b(b"ct")]);
    let mut items: Vec<(Ty, Item)> = vec![
        // recipients with a 4th element that is an empty list (re-encoded without it)
        (Ty::Recipient, arr(vec![b(b""), map(vec![]), NULL, arr(vec![])])),
        (Ty::Encrypt, arr(vec![prot.clone(), up.clone(), b(b"ct"), arr(vec![arr(vec![b(b""), map(vec![]), NULL, arr(vec![])])])])),
        (Ty::Mac, arr(vec![prot.clone(), up.clone(), b(b"p"), b(b"tag"), arr(vec![arr(vec![prot.clone(), map(vec![]), b(b"x"), arr(vec![rec.clone()])])])])),
        // empty signature / recipient lists
        (Ty::Sign, arr(vec![b(b""), map(vec![]), NULL, arr(vec![])])),
        (Ty::Encrypt, arr(vec![b(b""), map(vec![]), NULL, arr(vec![])])),
        // key_ops reordered / texts
        (Ty::Key, map(vec![(u(1), u(1)), (u(4), arr(vec![u(10), u(1), t("z"), t("a"), u(5)]))])),
        (Ty::Key, map(vec![(u(4), arr(vec![t("bb"), t("a")])), (u(1), t("kt")), (i(-1), Item::float(f64::NAN))])),
        // undefined where nil is accepted
        (Ty::Sign1, arr(vec![b(b""), map(vec![]), UNDEFINED, b(b"")])),
        (Ty::Encrypt0, arr(vec![prot.clone(), map(vec![]), UNDEFINED])),
        (Ty::Party, arr(vec![UNDEFINED, UNDEFINED, UNDEFINED])),
        (Ty::Header, map(vec![(u(99), UNDEFINED), (u(100), arr(vec![UNDEFINED]))])),
        // empty-map protected header (41 a0), map protected
        (Ty::Sign1, arr(vec![bwrap(&map(vec![])), map(vec![]), b(b"p"), b(b"s")])),
        (Ty::Mac0, arr(vec![prot.clone(), up.clone(), b(b"p"), b(b"t")])),
        (Ty::Signature, arr(vec![prot.clone(), up.clone(), b(b"s")])),
        (Ty::SuppPub, arr(vec![u(128), prot.clone(), b(b"o")])),
        (Ty::Kdf, arr(vec![i(-7), arr(vec![b(b"i"), u(5), NULL]), arr(vec![NULL, b(b"n"), b(b"o")]), arr(vec![u(128), prot.clone()]), b(b"p1"), b(b"p2")])),
        (Ty::Claims, map(vec![(u(4), Item::float(1.0)), (u(5), u(1)), (u(6), Item::float(-0.0)), (i(-65537), u(1))])),
        (Ty::KeySet, arr(vec![map(vec![(u(1), u(1))]), map(vec![(u(1), u(4)), (i(-1), b(b"k"))])])),
    ];
    // floats of every width in opaque and timestamp positions
    for f in [0.0f64, -0.0, 1.0, 1.5, 65504.0, 1.0e10, 1.1, f64::INFINITY, f64::NEG_INFINITY, f64::NAN, 5.960464477539063e-8] {
        items.push((Ty::Header, map(vec![(u(99), Item::float(f))])));
        items.push((Ty::Claims, map(vec![(u(4), Item::float(f))])));
        items.push((Ty::Timestamp, Item::float(f)));
    }
    let d = ex.pick(1usize, 2, 2);
    ex.bound("c07.families", "deviations_max", json!(d));
    ex.bound("c07.families", "items", json!(items.len()));
    par_partitions(ex.rep, items, |(ty, it), l| {
        for (lvl, e) in encodings(it, d, &DevOpts::ALL) {
            l.state(lvl as u64);
            l.count(&format!("c07.families.deviations={}", lvl));
            let bytes = e.to_bytes();
            if lvl == 2 && l.samples.is_empty() {
                l.sample(|| json!({"space": "c07.families", "type": format!("{:?}", ty), "hex": hex(&bytes)}));
            }
            ex.decode(l, "c07.families", *ty, Entry::Slice, &bytes);
        }
    });
    // NaNs with payloads, all widths, explicit bit patterns
    let nan_encs = vec![Enc::Float(0x7e01, 2), Enc::Float(0xfe00, 2), Enc::Float(0x7fc0_0001, 4), Enc::Float(0xffc0_0000, 4), Enc::Float(0x7ff8_0000_0000_0001, 8), Enc::Float(0x7ff0_0000_0000_0001, 8), Enc::Float(0xfff8_0000_0000_0000, 8)];
    let mut l = crate::mc::Local::default();
    for ne in nan_encs {
        l.state(1);
        let m1 = Enc::Map(vec![(Enc::UInt(99, 1), ne.clone())], 0).to_bytes();
        ex.decode(&mut l, "c07.nan", Ty::Header, Entry::Slice, &m1);
        let m2 = Enc::Map(vec![(Enc::UInt(4, 0), ne.clone())], 0).to_bytes();
        ex.decode(&mut l, "c07.nan", Ty::Claims, Entry::Slice, &m2);
        let k = Enc::Map(vec![(Enc::UInt(1, 0), Enc::UInt(1, 0)), (Enc::NInt(0, 0), ne.clone())], 0).to_bytes();
        ex.decode(&mut l, "c07.nan", Ty::Key, Entry::Slice, &k);
    }
    // chunked protected bstr in every message type
    let hm = map(vec![(u(1), i(-7))]).det();
    let chunked = Enc::BytesIndef(vec![(hm[..1].to_vec(), 0), (hm[1..].to_vec(), 0)]);
    for (ty, rest) in [
        (Ty::Sign1, vec![Enc::canonical(&map(vec![])), Enc::canonical(&NULL), Enc::canonical(&b(b"s"))]),
        (Ty::Encrypt0, vec![Enc::canonical(&map(vec![])), Enc::canonical(&NULL)]),
        (Ty::Signature, vec![Enc::canonical(&map(vec![])), Enc::canonical(&b(b"s"))]),
    ] {
        let mut a = vec![chunked.clone()];
        a.extend(rest);
        let n = a.len() as u64;
        l.state(1);
        ex.decode(&mut l, "c07.chunked_protected", ty, Entry::Slice, &Enc::Array(a, crate::refcbor::min_w(n)).to_bytes());
    }
    ex.rep.merge(l);
    let _ = gen::kinds;
    // nesting: every word over the header<->counter-signature edges pumped n times, nested
    // recipients, nested arrays / maps / tags in extras (crosses any nesting limit the decoder has:
    // what decodes must re-encode to something that decodes to the same value)
    let nmax = ex.pick(20usize, 40, 140);
    ex.bound("c07.nesting", "n_max", json!(nmax));
    let mut names = crate::spaces::c01::family_names(false);
    names.retain(|n| n.starts_with("depth:") || n.starts_with("recipients:") || n.starts_with("nest:"));
    par_partitions(ex.rep, names, |name, l| {
        for n in 1..=nmax {
            if let Some((eps, bytes)) = crate::spaces::c01::family(name, n) {
                l.state(n as u64);
                l.count("c07.nesting.cases");
                for (ty, entry) in eps.iter().take(6) {
                    ex.decode(l, "c07.nesting", *ty, *entry, &bytes);
                }
            }
        }
    });
}
