//! The eight message-level builders (signature, sign1, sign, mac, mac0, encrypt, encrypt0,
//! recipient): op alphabets, documented-effect model, real replay with recording closures.
//! Used by C19 (effects) and C06 (what is signed is what is verified).

use super::bfs::{self, Real, Spec, Step};
use super::Ex;
use crate::gen::{b, u};
use crate::refcose::*;
use crate::spaces::c11::{l_int, l_text, recipient_reps, sig_reps};
use crate::subject::{self, catch};
use coset::EncryptionContext;
use std::cell::RefCell;

#[derive(Clone, Copy, Debug, PartialEq, Eq, Hash)]
pub enum Kind {
    Signature,
    Sign1,
    Sign,
    Mac,
    Mac0,
    Encrypt,
    Encrypt0,
    Recipient,
}

pub const ALL_KINDS: [Kind; 8] = [Kind::Signature, Kind::Sign1, Kind::Sign, Kind::Mac, Kind::Mac0, Kind::Encrypt, Kind::Encrypt0, Kind::Recipient];

pub fn headers() -> Vec<RHeader> {
    vec![
        RHeader::default(),
        RHeader { alg: Some(l_int(-7)), ..Default::default() },
        RHeader { key_id: b"11".to_vec(), rest: vec![(l_text("x"), u(1))], ..Default::default() },
        RHeader { partial_iv: b"p".to_vec(), ..Default::default() },
        RHeader { iv: b"i".to_vec(), ..Default::default() },
        // crit and exactly one counter signature (the bare, non-list form), in either bucket
        RHeader { alg: Some(l_int(4)), crit: vec![l_int(1)], counter_signatures: vec![sig_reps()[1].clone()], ..Default::default() },
    ]
}
pub fn payloads() -> Vec<Vec<u8>> {
    vec![b"payload-0".to_vec(), vec![]]
}
pub fn aads() -> Vec<Vec<u8>> {
    vec![vec![], b"aad-1".to_vec()]
}
pub fn blobs() -> Vec<Vec<u8>> {
    vec![b"fixed".to_vec()]
}
/// Signers offered to add_*signature: protected headers differ so that signers are distinguishable;
/// templates 0 and 2 have the same header content in different bytes, 1 and 2 the same key id.
pub fn signer_templates() -> Vec<RSignature> {
    let s = sig_reps();
    vec![
        RSignature { protected: RProtected { original: None, header: headers()[1].clone() }, unprotected: RHeader::default(), signature: b"preset".to_vec() },
        RSignature { protected: RProtected::default(), unprotected: s[1].unprotected.clone(), signature: vec![] },
        // a signer that was itself parsed from the wire: its protected bytes are non-canonical
        // (indefinite-length map, non-minimal integer) and must be what is signed and what is kept
        RSignature { protected: RProtected { original: Some(vec![0xbf, 0x01, 0x38, 0x06, 0xff]), header: headers()[1].clone() }, unprotected: s[1].unprotected.clone(), signature: vec![] },
    ]
}
pub const REC_CTX: [EncryptionContext; 4] = [EncryptionContext::EncRecipient, EncryptionContext::MacRecipient, EncryptionContext::RecRecipient, EncryptionContext::CoseEncrypt];
pub const REC_CTX_TEXT: [&str; 4] = ["Enc_Recipient", "Mac_Recipient", "Rec_Recipient", "<not a recipient context>"];

#[derive(Clone, Debug, PartialEq)]
pub enum MOp {
    Protected(usize),
    Unprotected(usize),
    /// payload (sign/mac kinds) or ciphertext (encrypt kinds) setter
    Payload(usize),
    /// signature / tag setter
    Blob(usize),
    AddSignature(usize),
    AddRecipient(usize),
    /// create_signature / create_tag
    Create { aad: usize },
    TryCreate { aad: usize, ok: bool },
    CreateDetached { payload: usize, aad: usize },
    TryCreateDetached { payload: usize, aad: usize, ok: bool },
    AddCreated { sig: usize, aad: usize },
    TryAddCreated { sig: usize, aad: usize, ok: bool },
    AddDetached { sig: usize, payload: usize, aad: usize },
    TryAddDetached { sig: usize, payload: usize, aad: usize, ok: bool },
    /// create_ciphertext (ctx only meaningful for recipients)
    CreateCt { ctx: usize, pt: usize, aad: usize },
    TryCreateCt { ctx: usize, pt: usize, aad: usize, ok: bool },
}

pub fn ops_of(kind: Kind) -> Vec<MOp> {
    let mut v = vec![MOp::Protected(0), MOp::Protected(1), MOp::Protected(2), MOp::Protected(3), MOp::Protected(4), MOp::Protected(5), MOp::Unprotected(0), MOp::Unprotected(2), MOp::Unprotected(3), MOp::Unprotected(4), MOp::Unprotected(5)];
    match kind {
        Kind::Signature => v.push(MOp::Blob(0)),
        Kind::Sign1 => {
            v.extend([MOp::Payload(0), MOp::Payload(1), MOp::Blob(0)]);
            v.extend([MOp::Create { aad: 0 }, MOp::Create { aad: 1 }]);
            v.extend([MOp::CreateDetached { payload: 0, aad: 0 }, MOp::CreateDetached { payload: 1, aad: 1 }]);
            v.extend([MOp::TryCreate { aad: 0, ok: true }, MOp::TryCreate { aad: 1, ok: true }, MOp::TryCreate { aad: 0, ok: false }]);
            v.extend([MOp::TryCreateDetached { payload: 0, aad: 1, ok: true }, MOp::TryCreateDetached { payload: 1, aad: 0, ok: true }, MOp::TryCreateDetached { payload: 0, aad: 0, ok: false }]);
        }
        Kind::Sign => {
            v.extend([MOp::Payload(0), MOp::Payload(1), MOp::AddSignature(0), MOp::AddSignature(1)]);
            v.extend([MOp::AddCreated { sig: 2, aad: 0 }, MOp::AddDetached { sig: 2, payload: 0, aad: 1 }, MOp::TryAddCreated { sig: 2, aad: 1, ok: true }, MOp::TryAddDetached { sig: 2, payload: 1, aad: 0, ok: true }]);
            for sig in 0..2 {
                for aad in 0..2 {
                    v.push(MOp::AddCreated { sig, aad });
                }
            }
            v.extend([MOp::AddDetached { sig: 0, payload: 0, aad: 0 }, MOp::AddDetached { sig: 1, payload: 1, aad: 1 }]);
            v.extend([MOp::TryAddCreated { sig: 0, aad: 0, ok: true }, MOp::TryAddCreated { sig: 1, aad: 1, ok: false }]);
            v.extend([MOp::TryAddDetached { sig: 0, payload: 0, aad: 1, ok: true }, MOp::TryAddDetached { sig: 1, payload: 0, aad: 0, ok: false }]);
        }
        Kind::Mac | Kind::Mac0 => {
            v.extend([MOp::Payload(0), MOp::Payload(1), MOp::Blob(0)]);
            v.extend([MOp::Create { aad: 0 }, MOp::Create { aad: 1 }]);
            v.extend([MOp::TryCreate { aad: 0, ok: true }, MOp::TryCreate { aad: 1, ok: true }, MOp::TryCreate { aad: 0, ok: false }]);
            if kind == Kind::Mac {
                v.extend([MOp::AddRecipient(0), MOp::AddRecipient(1)]);
            }
        }
        Kind::Encrypt | Kind::Encrypt0 => {
            v.extend([MOp::Payload(0), MOp::Payload(1)]);
            v.extend([MOp::CreateCt { ctx: 0, pt: 0, aad: 0 }, MOp::CreateCt { ctx: 0, pt: 1, aad: 0 }, MOp::CreateCt { ctx: 0, pt: 0, aad: 1 }]);
            v.extend([MOp::TryCreateCt { ctx: 0, pt: 0, aad: 0, ok: true }, MOp::TryCreateCt { ctx: 0, pt: 1, aad: 1, ok: true }, MOp::TryCreateCt { ctx: 0, pt: 0, aad: 0, ok: false }]);
            if kind == Kind::Encrypt {
                v.extend([MOp::AddRecipient(0), MOp::AddRecipient(1)]);
            }
        }
        Kind::Recipient => {
            v.extend([MOp::Payload(0), MOp::AddRecipient(0), MOp::AddRecipient(1)]);
            for ctx in 0..4 {
                v.push(MOp::CreateCt { ctx, pt: 0, aad: ctx % 2 });
            }
            v.extend([
                MOp::TryCreateCt { ctx: 0, pt: 1, aad: 1, ok: true },
                MOp::TryCreateCt { ctx: 2, pt: 0, aad: 0, ok: true },
                MOp::TryCreateCt { ctx: 1, pt: 0, aad: 0, ok: false },
                MOp::TryCreateCt { ctx: 3, pt: 0, aad: 0, ok: true },
            ]);
        }
    }
    v
}

/// How a signature / tag / ciphertext slot was produced (C06 bookkeeping).
#[derive(Clone, Debug, PartialEq)]
pub struct Created {
    /// which helper produced it (states reached through different helpers are never merged: the
    /// C06 oracle observes what that helper handed to its closure)
    pub via: String,
    /// index of the closure invocation that produced it
    pub call: usize,
    pub aad: usize,
    pub detached: Option<usize>,
    pub ctx: usize,
    /// a protected-header or payload setter changed the signed content afterwards
    pub stale: bool,
}

#[derive(Clone, Debug, PartialEq)]
pub struct Msg {
    pub kind: Kind,
    pub protected: RProtected,
    pub unprotected: RHeader,
    pub payload: Option<Vec<u8>>,
    pub blob: Vec<u8>,
    pub signatures: Vec<RSignature>,
    pub recipients: Vec<RRecipient>,
    pub calls: usize,
    pub main: Option<Created>,
    pub signers: Vec<Option<Created>>,
}

pub fn new_msg(kind: Kind) -> Msg {
    Msg { kind, protected: RProtected::default(), unprotected: RHeader::default(), payload: None, blob: vec![], signatures: vec![], recipients: vec![], calls: 0, main: None, signers: vec![] }
}

/// What the caller's closure returns: opaque to the crate, whatever it looks like (longer than any
/// truncated-MAC size; every third one is a well-formed DER `SEQUENCE { INTEGER, INTEGER }`).
pub fn closure_output(call: usize) -> Vec<u8> {
    if call % 3 == 1 && call < 128 {
        vec![0x30, 0x06, 0x02, 0x01, call as u8, 0x02, 0x01, 0x01]
    } else {
        format!("out-{}-0123456789abcdef0123456789abcdef", call).into_bytes()
    }
}

fn is_enc(kind: Kind) -> bool {
    matches!(kind, Kind::Encrypt | Kind::Encrypt0 | Kind::Recipient)
}

pub fn step(m: &Msg, op: &MOp) -> Step<Msg> {
    let mut n = m.clone();
    let kind = m.kind;
    let stale_all = |n: &mut Msg| {
        if let Some(c) = &mut n.main {
            c.stale = true;
        }
        for s in n.signers.iter_mut().flatten() {
            s.stale = true;
        }
    };
    match op {
        MOp::Protected(h) => {
            let p = RProtected { original: None, header: headers()[*h].clone() };
            if p != n.protected {
                stale_all(&mut n);
            }
            n.protected = p;
        }
        MOp::Unprotected(h) => n.unprotected = headers()[*h].clone(),
        MOp::Payload(p) => {
            let v = Some(payloads()[*p].clone());
            if is_enc(kind) {
                // the ciphertext setter overwrites the created slot
                n.main = None;
            } else if v != n.payload {
                stale_all(&mut n);
            }
            n.payload = v;
        }
        MOp::Blob(x) => {
            n.blob = blobs()[*x].clone();
            n.main = None;
        }
        MOp::AddSignature(s) => {
            n.signatures.push(signer_templates()[*s].clone());
            n.signers.push(None);
        }
        MOp::AddRecipient(r) => n.recipients.push(recipient_reps()[*r + 1].clone()),
        MOp::Create { aad } | MOp::TryCreate { aad, .. } => {
            if matches!(kind, Kind::Mac | Kind::Mac0) && n.payload.is_none() {
                return Step::Refused;
            }
            if let MOp::TryCreate { ok: false, .. } = op {
                return Step::ClosureError;
            }
            n.blob = closure_output(n.calls);
            n.main = Some(Created { via: format!("{:?}", op).split(|c| c == ' ' || c == '{').next().unwrap_or("").to_string(), call: n.calls, aad: *aad, detached: None, ctx: 0, stale: false });
            n.calls += 1;
        }
        MOp::CreateDetached { payload, aad } | MOp::TryCreateDetached { payload, aad, .. } => {
            if n.payload.is_some() {
                return Step::Refused;
            }
            if let MOp::TryCreateDetached { ok: false, .. } = op {
                return Step::ClosureError;
            }
            n.blob = closure_output(n.calls);
            n.main = Some(Created { via: format!("{:?}", op).split(|c| c == ' ' || c == '{').next().unwrap_or("").to_string(), call: n.calls, aad: *aad, detached: Some(*payload), ctx: 0, stale: false });
            n.calls += 1;
        }
        MOp::AddCreated { sig, aad } | MOp::TryAddCreated { sig, aad, .. } => {
            if let MOp::TryAddCreated { ok: false, .. } = op {
                return Step::ClosureError;
            }
            let mut s = signer_templates()[*sig].clone();
            s.signature = closure_output(n.calls);
            n.signatures.push(s);
            n.signers.push(Some(Created { via: format!("{:?}", op).split(|c| c == ' ' || c == '{').next().unwrap_or("").to_string(), call: n.calls, aad: *aad, detached: None, ctx: 0, stale: false }));
            n.calls += 1;
        }
        MOp::AddDetached { sig, payload, aad } | MOp::TryAddDetached { sig, payload, aad, .. } => {
            if n.payload.is_some() {
                return Step::Refused;
            }
            if let MOp::TryAddDetached { ok: false, .. } = op {
                return Step::ClosureError;
            }
            let mut s = signer_templates()[*sig].clone();
            s.signature = closure_output(n.calls);
            n.signatures.push(s);
            n.signers.push(Some(Created { via: format!("{:?}", op).split(|c| c == ' ' || c == '{').next().unwrap_or("").to_string(), call: n.calls, aad: *aad, detached: Some(*payload), ctx: 0, stale: false }));
            n.calls += 1;
        }
        MOp::CreateCt { ctx, aad, .. } | MOp::TryCreateCt { ctx, aad, .. } => {
            if kind == Kind::Recipient && *ctx == 3 {
                return Step::Refused;
            }
            if let MOp::TryCreateCt { ok: false, .. } = op {
                return Step::ClosureError;
            }
            n.payload = Some(closure_output(n.calls));
            n.main = Some(Created { via: format!("{:?}", op).split(|c| c == ' ' || c == '{').next().unwrap_or("").to_string(), call: n.calls, aad: *aad, detached: None, ctx: *ctx, stale: false });
            n.calls += 1;
        }
    }
    Step::Next(n)
}

pub fn rval_of(m: &Msg) -> RVal {
    match m.kind {
        Kind::Signature => RVal::Signature(RSignature { protected: m.protected.clone(), unprotected: m.unprotected.clone(), signature: m.blob.clone() }),
        Kind::Sign1 => RVal::Sign1(RSign1 { protected: m.protected.clone(), unprotected: m.unprotected.clone(), payload: m.payload.clone(), signature: m.blob.clone() }),
        Kind::Sign => RVal::Sign(RSign { protected: m.protected.clone(), unprotected: m.unprotected.clone(), payload: m.payload.clone(), signatures: m.signatures.clone() }),
        Kind::Mac => RVal::Mac(RMac { protected: m.protected.clone(), unprotected: m.unprotected.clone(), payload: m.payload.clone(), tag: m.blob.clone(), recipients: m.recipients.clone() }),
        Kind::Mac0 => RVal::Mac0(RMac0 { protected: m.protected.clone(), unprotected: m.unprotected.clone(), payload: m.payload.clone(), tag: m.blob.clone() }),
        Kind::Encrypt => RVal::Encrypt(REncrypt { protected: m.protected.clone(), unprotected: m.unprotected.clone(), ciphertext: m.payload.clone(), recipients: m.recipients.clone() }),
        Kind::Encrypt0 => RVal::Encrypt0(REncrypt0 { protected: m.protected.clone(), unprotected: m.unprotected.clone(), ciphertext: m.payload.clone() }),
        Kind::Recipient => RVal::Recipient(RRecipient { protected: m.protected.clone(), unprotected: m.unprotected.clone(), ciphertext: m.payload.clone(), recipients: m.recipients.clone() }),
    }
}

/// A built message of any kind.
pub enum Built {
    Signature(coset::CoseSignature),
    Sign1(coset::CoseSign1),
    Sign(coset::CoseSign),
    Mac(coset::CoseMac),
    Mac0(coset::CoseMac0),
    Encrypt(coset::CoseEncrypt),
    Encrypt0(coset::CoseEncrypt0),
    Recipient(coset::CoseRecipient),
}

impl Built {
    pub fn debug(&self) -> String {
        match self {
            Built::Signature(x) => format!("{:?}", x),
            Built::Sign1(x) => format!("{:?}", x),
            Built::Sign(x) => format!("{:?}", x),
            Built::Mac(x) => format!("{:?}", x),
            Built::Mac0(x) => format!("{:?}", x),
            Built::Encrypt(x) => format!("{:?}", x),
            Built::Encrypt0(x) => format!("{:?}", x),
            Built::Recipient(x) => format!("{:?}", x),
        }
    }
}

pub enum RunErr {
    Panic(String),
    ClosureError,
}

/// Records what the creator closures were given.
#[derive(Default)]
pub struct Recorder {
    /// (first argument if the closure has two [plaintext], data / aad)
    pub calls: RefCell<Vec<(Option<Vec<u8>>, Vec<u8>)>>,
}

/// Replay a history on the real builder of `kind`.
pub fn real_run(kind: Kind, ops: &[MOp], hist: &[usize], rec: &Recorder) -> Result<Built, RunErr> {
    let sign_clo = |d: &[u8]| -> Vec<u8> {
        let n = rec.calls.borrow().len();
        rec.calls.borrow_mut().push((None, d.to_vec()));
        closure_output(n)
    };
    let try_clo = |ok: bool| {
        move |d: &[u8]| -> Result<Vec<u8>, String> {
            let n = rec.calls.borrow().len();
            rec.calls.borrow_mut().push((None, d.to_vec()));
            if ok {
                Ok(closure_output(n))
            } else {
                Err("closure-error".to_string())
            }
        }
    };
    let ct_clo = |p: &[u8], a: &[u8]| -> Vec<u8> {
        let n = rec.calls.borrow().len();
        rec.calls.borrow_mut().push((Some(p.to_vec()), a.to_vec()));
        closure_output(n)
    };
    let try_ct_clo = |ok: bool| {
        move |p: &[u8], a: &[u8]| -> Result<Vec<u8>, String> {
            let n = rec.calls.borrow().len();
            rec.calls.borrow_mut().push((Some(p.to_vec()), a.to_vec()));
            if ok {
                Ok(closure_output(n))
            } else {
                Err("closure-error".to_string())
            }
        }
    };
    let pls = payloads();
    let ads = aads();
    let r = catch(|| -> Result<Built, ()> {
        Ok(match kind {
            Kind::Signature => {
                let mut bld = coset::CoseSignatureBuilder::new();
                for h in hist {
                    let op = &ops[*h];
                    bld = match op {
                        MOp::Protected(x) => bld.protected(subject::c_header(&headers()[*x]).unwrap()),
                        MOp::Unprotected(x) => bld.unprotected(subject::c_header(&headers()[*x]).unwrap()),
                        MOp::Blob(x) => bld.signature(blobs()[*x].clone()),
                        _ => unreachable!(),
                    };
                }
                Built::Signature(bld.build())
            }
            Kind::Sign1 => {
                let mut bld = coset::CoseSign1Builder::new();
                for h in hist {
                    let op = &ops[*h];
                    bld = match op {
                        MOp::Protected(x) => bld.protected(subject::c_header(&headers()[*x]).unwrap()),
                        MOp::Unprotected(x) => bld.unprotected(subject::c_header(&headers()[*x]).unwrap()),
                        MOp::Payload(p) => bld.payload(pls[*p].clone()),
                        MOp::Blob(x) => bld.signature(blobs()[*x].clone()),
                        MOp::Create { aad } => bld.create_signature(&ads[*aad], sign_clo),
                        MOp::TryCreate { aad, ok } => bld.try_create_signature(&ads[*aad], try_clo(*ok)).map_err(|_| ())?,
                        MOp::CreateDetached { payload, aad } => bld.create_detached_signature(&pls[*payload], &ads[*aad], sign_clo),
                        MOp::TryCreateDetached { payload, aad, ok } => bld.try_create_detached_signature(&pls[*payload], &ads[*aad], try_clo(*ok)).map_err(|_| ())?,
                        _ => unreachable!(),
                    };
                }
                Built::Sign1(bld.build())
            }
            Kind::Sign => {
                let mut bld = coset::CoseSignBuilder::new();
                let st = |i: &usize| subject::c_signature(&signer_templates()[*i]).unwrap();
                for h in hist {
                    let op = &ops[*h];
                    bld = match op {
                        MOp::Protected(x) => bld.protected(subject::c_header(&headers()[*x]).unwrap()),
                        MOp::Unprotected(x) => bld.unprotected(subject::c_header(&headers()[*x]).unwrap()),
                        MOp::Payload(p) => bld.payload(pls[*p].clone()),
                        MOp::AddSignature(s) => bld.add_signature(st(s)),
                        MOp::AddCreated { sig, aad } => bld.add_created_signature(st(sig), &ads[*aad], sign_clo),
                        MOp::TryAddCreated { sig, aad, ok } => bld.try_add_created_signature(st(sig), &ads[*aad], try_clo(*ok)).map_err(|_| ())?,
                        MOp::AddDetached { sig, payload, aad } => bld.add_detached_signature(st(sig), &pls[*payload], &ads[*aad], sign_clo),
                        MOp::TryAddDetached { sig, payload, aad, ok } => bld.try_add_detached_signature(st(sig), &pls[*payload], &ads[*aad], try_clo(*ok)).map_err(|_| ())?,
                        _ => unreachable!(),
                    };
                }
                Built::Sign(bld.build())
            }
            Kind::Mac => {
                let mut bld = coset::CoseMacBuilder::new();
                for h in hist {
                    let op = &ops[*h];
                    bld = match op {
                        MOp::Protected(x) => bld.protected(subject::c_header(&headers()[*x]).unwrap()),
                        MOp::Unprotected(x) => bld.unprotected(subject::c_header(&headers()[*x]).unwrap()),
                        MOp::Payload(p) => bld.payload(pls[*p].clone()),
                        MOp::Blob(x) => bld.tag(blobs()[*x].clone()),
                        MOp::AddRecipient(r) => bld.add_recipient(subject::c_recipient(&recipient_reps()[*r + 1]).unwrap()),
                        MOp::Create { aad } => bld.create_tag(&ads[*aad], sign_clo),
                        MOp::TryCreate { aad, ok } => bld.try_create_tag(&ads[*aad], try_clo(*ok)).map_err(|_| ())?,
                        _ => unreachable!(),
                    };
                }
                Built::Mac(bld.build())
            }
            Kind::Mac0 => {
                let mut bld = coset::CoseMac0Builder::new();
                for h in hist {
                    let op = &ops[*h];
                    bld = match op {
                        MOp::Protected(x) => bld.protected(subject::c_header(&headers()[*x]).unwrap()),
                        MOp::Unprotected(x) => bld.unprotected(subject::c_header(&headers()[*x]).unwrap()),
                        MOp::Payload(p) => bld.payload(pls[*p].clone()),
                        MOp::Blob(x) => bld.tag(blobs()[*x].clone()),
                        MOp::Create { aad } => bld.create_tag(&ads[*aad], sign_clo),
                        MOp::TryCreate { aad, ok } => bld.try_create_tag(&ads[*aad], try_clo(*ok)).map_err(|_| ())?,
                        _ => unreachable!(),
                    };
                }
                Built::Mac0(bld.build())
            }
            Kind::Encrypt => {
                let mut bld = coset::CoseEncryptBuilder::new();
                for h in hist {
                    let op = &ops[*h];
                    bld = match op {
                        MOp::Protected(x) => bld.protected(subject::c_header(&headers()[*x]).unwrap()),
                        MOp::Unprotected(x) => bld.unprotected(subject::c_header(&headers()[*x]).unwrap()),
                        MOp::Payload(p) => bld.ciphertext(pls[*p].clone()),
                        MOp::AddRecipient(r) => bld.add_recipient(subject::c_recipient(&recipient_reps()[*r + 1]).unwrap()),
                        MOp::CreateCt { pt, aad, .. } => bld.create_ciphertext(&pls[*pt], &ads[*aad], ct_clo),
                        MOp::TryCreateCt { pt, aad, ok, .. } => bld.try_create_ciphertext(&pls[*pt], &ads[*aad], try_ct_clo(*ok)).map_err(|_| ())?,
                        _ => unreachable!(),
                    };
                }
                Built::Encrypt(bld.build())
            }
            Kind::Encrypt0 => {
                let mut bld = coset::CoseEncrypt0Builder::new();
                for h in hist {
                    let op = &ops[*h];
                    bld = match op {
                        MOp::Protected(x) => bld.protected(subject::c_header(&headers()[*x]).unwrap()),
                        MOp::Unprotected(x) => bld.unprotected(subject::c_header(&headers()[*x]).unwrap()),
                        MOp::Payload(p) => bld.ciphertext(pls[*p].clone()),
                        MOp::CreateCt { pt, aad, .. } => bld.create_ciphertext(&pls[*pt], &ads[*aad], ct_clo),
                        MOp::TryCreateCt { pt, aad, ok, .. } => bld.try_create_ciphertext(&pls[*pt], &ads[*aad], try_ct_clo(*ok)).map_err(|_| ())?,
                        _ => unreachable!(),
                    };
                }
                Built::Encrypt0(bld.build())
            }
            Kind::Recipient => {
                let mut bld = coset::CoseRecipientBuilder::new();
                for h in hist {
                    let op = &ops[*h];
                    bld = match op {
                        MOp::Protected(x) => bld.protected(subject::c_header(&headers()[*x]).unwrap()),
                        MOp::Unprotected(x) => bld.unprotected(subject::c_header(&headers()[*x]).unwrap()),
                        MOp::Payload(p) => bld.ciphertext(pls[*p].clone()),
                        MOp::AddRecipient(r) => bld.add_recipient(subject::c_recipient(&recipient_reps()[*r + 1]).unwrap()),
                        MOp::CreateCt { ctx, pt, aad } => bld.create_ciphertext(REC_CTX[*ctx], &pls[*pt], &ads[*aad], ct_clo),
                        MOp::TryCreateCt { ctx, pt, aad, ok } => bld.try_create_ciphertext(REC_CTX[*ctx], &pls[*pt], &ads[*aad], try_ct_clo(*ok)).map_err(|_| ())?,
                        _ => unreachable!(),
                    };
                }
                Built::Recipient(bld.build())
            }
        })
    });
    match r {
        Ok(Ok(b)) => Ok(b),
        Ok(Err(())) => Err(RunErr::ClosureError),
        Err(p) => Err(RunErr::Panic(p)),
    }
}

pub fn spec_real(kind: Kind, ops: &[MOp], hist: &[usize]) -> Real {
    let rec = Recorder::default();
    match real_run(kind, ops, hist, &rec) {
        Ok(b) => Real::Built(b.debug()),
        Err(RunErr::Panic(p)) => Real::Panicked(p),
        Err(RunErr::ClosureError) => Real::ClosureError,
    }
}

pub fn expect_debug(m: &Msg) -> String {
    match subject::construct(&rval_of(m)) {
        Ok(Some(s)) => s.debug(),
        _ => "<unconstructible>".into(),
    }
}

pub fn run_c19(ex: &Ex, kind: Kind, depth: usize, cap: usize) {
    let ops = ops_of(kind);
    let name: &'static str = match kind {
        Kind::Signature => "CoseSignatureBuilder",
        Kind::Sign1 => "CoseSign1Builder",
        Kind::Sign => "CoseSignBuilder",
        Kind::Mac => "CoseMacBuilder",
        Kind::Mac0 => "CoseMac0Builder",
        Kind::Encrypt => "CoseEncryptBuilder",
        Kind::Encrypt0 => "CoseEncrypt0Builder",
        Kind::Recipient => "CoseRecipientBuilder",
    };
    let spec = Spec {
        pid: ex.pid,
        name,
        inits: vec![("new()".to_string(), new_msg(kind))],
        nops: ops.len(),
        op_name: &|i| format!("{:?}", ops[i]),
        step: &|m, i| step(m, &ops[i]),
        // C19 observes the built value only: bookkeeping is not part of the state
        key: &|m| format!("{:?}", rval_of(m)),
        expect: &|m| expect_debug(m),
        real: &|_init, hist| spec_real(kind, &ops, hist),
        on_state: None,
    };
    bfs::run(ex.rep, &spec, depth, cap);
    let _ = b(b"");
}
