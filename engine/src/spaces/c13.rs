//! C13 — an accepted input is exactly one CBOR item; byte and Value APIs agree.

use super::{c07, c08, c09, c10, c14, c15, c18, Ex, Scale};
use crate::mc::{Report, Tier};
use crate::oracle::Checks;

pub const CHECKS: Checks = Checks { layers: true, prefixes: true, suffixes: true, kind_extraneous: true, ..Checks::NONE };

pub fn run(rep: &Report) -> u64 {
    rep.set_rule("C13: every input of the structured spaces of C08, C09, C10, C14, C15, C18 and the C07 families at reduced bounds (all types; valid, invalid, non-canonical); for each accepted input every proper prefix must be rejected and the input followed by each of 256 single bytes, 6 complete items and 3 garbage strings must be rejected with the extraneous-data error; for every input (accepted or not) from_slice(b) must agree with from_cbor_value(parse(b)) and to_vec(v) with serialise(to_cbor_value(v)), tagged forms likewise; trailing bytes inside a protected bstr are exercised by the C09 slot alphabet; non-trivial = accepted inputs (each contributes len(b)+265 derived decodes); distinct by bytes");
    rep.assume("ciborium (re-exported as coset::cbor) defines the Value-level API the byte-level API is compared against");
    let scale = match rep.tier {
        Tier::Quick => Scale::Small,
        Tier::Thorough => Scale::Quick,
    };
    let ex = Ex { rep, pid: "C13", checks: CHECKS, scale };
    c08::explore(&ex);
    c09::explore(&ex);
    c10::explore(&ex);
    c14::explore(&ex);
    c15::explore(&ex);
    c18::explore(&ex);
    c07::families(&Ex { rep, pid: "C13", checks: CHECKS, scale: Scale::Small });
    // deep nesting: the byte API and parse-then-convert must give up at the same depth
    {
        let ex = Ex { rep, pid: "C13", checks: Checks { layers: true, ..Checks::NONE }, scale };
        let mut names = crate::spaces::c01::family_names(false);
        names.retain(|n| n.starts_with("nest:") || n.starts_with("recipients:") || n == "depth:su:0" || n == "depth:au:0" || n == "depth:sp:0");
        crate::mc::par_partitions(rep, names, |name, l| {
            for n in (1..=40).chain((41..=300).step_by(if rep.tier == Tier::Quick { 3 } else { 1 })) {
                if let Some((eps, bytes)) = crate::spaces::c01::family(name, n) {
                    l.state(n as u64);
                    l.count("c13.nesting.cases");
                    for (ty, entry) in eps.iter().take(4) {
                        ex.decode(l, "c13.nesting", *ty, *entry, &bytes);
                    }
                }
            }
        });
    }
    1000
}
