//! C10 — COSE_Key / COSE_KeySet: accepted iff well-formed, parameters map to fields.

use super::{array_product, map_tree, Ex, Scale};
use crate::gen;
use crate::mc::{par_partitions, Report};
use crate::oracle::{Checks, Entry};
use crate::refcbor::{encodings, hex, DevOpts, Item};
use crate::refcose::Ty;
use serde_json::json;

pub const CHECKS: Checks = Checks { iff: true, ..Checks::NONE };

pub fn run(rep: &Report) -> u64 {
    rep.set_rule("C10: all ordered sequences (with repetition) of <= N (label,value) pairs from the key pair alphabet as a COSE_Key and as the element of a one-key COSE_KeySet; all key sets of 0..3 elements over valid/invalid keys; encodings within d deviations; non-trivial = must-accept or single-fault; distinct by bytes");
    rep.assume("reference key rules (refcose::key) transliterate RFC 8152 section 7 and the property statement");
    explore(&Ex::own(rep, CHECKS));
    1000
}

pub fn explore(ex: &Ex) {
    super::short_strings(ex, "c10.bytes", &[(Ty::Key, Entry::Slice), (Ty::KeySet, Entry::Slice)], ex.pick(1usize, 2, 3));
    let pairs = gen::key_pairs();
    let depth = ex.pick(2usize, 3, 4);
    map_tree(ex, "c10.maps", &pairs, depth, &|map, d, l| {
        ex.decode(l, "c10.maps", Ty::Key, Entry::Slice, map);
        if d <= 2 {
            let mut v = vec![0x81];
            v.extend_from_slice(map);
            ex.decode(l, "c10.maps", Ty::KeySet, Entry::Slice, &v);
        }
    });
    // every key type x every registered key parameter label (common and per key type, and their
    // neighbours) x every value shape, the label before and after kty: only labels 1..5 are
    // interpreted, whatever the key type
    {
        use crate::refiana::Reg;
        let labels = super::registry_labels(&[Reg::KeyParameter, Reg::OkpKeyParameter, Reg::Ec2KeyParameter, Reg::RsaKeyParameter, Reg::SymmetricKeyParameter, Reg::HssLmsKeyParameter, Reg::WalnutDsaKeyParameter]);
        let kinds = super::kinds_plus();
        let mut ktys: Vec<Item> = crate::refiana::table(Reg::KeyType).iter().map(|(_, v)| gen::i(*v as i128)).collect();
        ktys.push(gen::t("kt"));
        ex.bound("c10.registry", "ktys_x_labels_x_kinds", json!([ktys.len(), labels.len(), kinds.len()]));
        par_partitions(ex.rep, labels, |lab, l| {
            for kty in &ktys {
                for k in &kinds {
                    for m in [gen::map(vec![(gen::u(1), kty.clone()), (lab.clone(), k.clone())]), gen::map(vec![(lab.clone(), k.clone()), (gen::u(1), kty.clone())])] {
                        let bytes = m.det();
                        l.state(1);
                        ex.decode(l, "c10.registry", Ty::Key, Entry::Slice, &bytes);
                        ex.decode(l, "c10.registry", Ty::KeySet, Entry::Slice, &[&[0x81u8][..], &bytes].concat());
                    }
                }
            }
        });
    }
    // key material is opaque: every registered, private-use and text curve x byte strings around every
    // field size under x / y / d (and k), for the key types that use them
    {
        use crate::refiana::Reg;
        let mut crvs: Vec<Item> = crate::refiana::table(Reg::EllipticCurve).iter().map(|(_, v)| gen::i(*v as i128)).collect();
        crvs.extend([gen::i(-65537), gen::i(i64::MIN as i128), gen::t("crv"), gen::u(99)]);
        let lens = [0usize, 1, 28, 31, 32, 33, 47, 48, 49, 55, 56, 57, 58, 65, 66, 67];
        ex.bound("c10.curves", "curves_x_lengths", json!([crvs.len(), lens.len()]));
        par_partitions(ex.rep, crvs, |crv, l| {
            for kty in [1u64, 2, 4] {
                for lab in [-2i128, -3, -4] {
                    for n in lens {
                        let m = gen::map(vec![(gen::u(1), gen::u(kty)), (gen::i(-1), crv.clone()), (gen::i(lab), gen::b(&gen::pattern(n)))]);
                        l.state(1);
                        ex.decode(l, "c10.curves", Ty::Key, Entry::Slice, &m.det());
                    }
                }
            }
        });
    }
    {
        use gen::{b, i, t, u};
        let typed = vec![(u(1), u(2)), (u(2), b(b"kid")), (u(3), i(-7)), (u(4), gen::arr(vec![u(2), u(1), t("x")])), (u(5), b(b"iv"))];
        let faults = vec![(u(2), b(b"")), (u(1), u(0)), (u(4), gen::arr(vec![u(1), u(1)])), (u(1000), u(0)), (crate::refcbor::NULL, u(1))];
        super::wide_maps(ex, "c10.wide", &|k| if k == 1 { (u(0), u(7)) } else if k % 3 == 0 { (t(&format!("x{}", k)), u(k as u64)) } else if k % 3 == 1 { (u(1000 + k as u64), b(b"v")) } else { (i(-1000 - k as i128), crate::refcbor::NULL) }, &typed, &faults, &|m, l| {
            ex.decode(l, "c10.wide", Ty::Key, Entry::Slice, m);
            let ks = [&[0x82u8][..], &gen::map(vec![(u(1), u(1))]).det(), m].concat();
            ex.decode(l, "c10.wide", Ty::KeySet, Entry::Slice, &ks);
        });
        // long key sets with the invalid key first / in the middle / last
        for n in [9usize, 17, 33, 65, 100, 257] {
            let mut l = crate::mc::Local::default();
            let good = gen::map(vec![(u(1), u(1)), (i(-1), u(6))]);
            for bad_at in [None, Some(0), Some(n / 2), Some(n - 1)] {
                let keys: Vec<Item> = (0..n).map(|k| if Some(k) == bad_at { gen::map(vec![(u(1), u(0))]) } else { good.clone() }).collect();
                l.state(n as u64);
                ex.decode(&mut l, "c10.wide", Ty::KeySet, Entry::Slice, &gen::arr(keys).det());
            }
            ex.rep.merge(l);
        }
    }
    // key sets
    let mut elems = gen::keys_valid();
    elems.extend(gen::keys_invalid());
    for n in 0..=3usize {
        let space = format!("c10.keyset{}", n);
        array_product(ex, &space, &elems, n, &|bytes, l| {
            l.sample(|| json!({"space": "c10.keyset", "hex": hex(bytes)}));
            ex.decode(l, &space, Ty::KeySet, Entry::Slice, bytes);
            ex.decode(l, &space, Ty::Key, Entry::Slice, bytes);
        });
    }
    for it in gen::non_arrays() {
        let mut l = crate::mc::Local::default();
        l.state(0);
        ex.decode(&mut l, "c10.nonarray", Ty::KeySet, Entry::Slice, &it.det());
        ex.decode(&mut l, "c10.nonarray", Ty::Key, Entry::Slice, &it.det());
        ex.rep.merge(l);
    }
    // encodings
    let d = ex.pick(1usize, 1, 2);
    ex.bound("c10.encodings", "deviations_max", json!(d));
    let mut maps: Vec<Item> = gen::keys_valid();
    for a in &pairs {
        maps.push(Item::Map(vec![(gen::u(1), gen::u(1)), a.clone()]));
    }
    if ex.scale == Scale::Thorough {
        for a in &pairs {
            maps.push(Item::Map(vec![a.clone(), (gen::u(1), gen::u(2))]));
        }
    }
    par_partitions(ex.rep, maps, |m, l| {
        let dd = if matches!(m, Item::Map(x) if x.len() > 3) { 1 } else { d };
        for (lvl, e) in encodings(m, dd, &DevOpts::NO_BIGNUM) {
            l.state(lvl as u64);
            l.count(&format!("c10.encodings.deviations={}", lvl));
            let b = e.to_bytes();
            ex.decode(l, "c10.encodings", Ty::Key, Entry::Slice, &b);
            let mut v = vec![0x9f];
            v.extend_from_slice(&b);
            v.push(0xff);
            ex.decode(l, "c10.encodings", Ty::KeySet, Entry::Slice, &v);
        }
    });
}
