//! Level-synchronous breadth-first search over builder call sequences with canonical-state
//! de-duplication.  A state is (canonical model value, representative history); every transition
//! replays `history + op` on a fresh real builder and compares with the model.

use crate::mc::{Local, Report, Viol};
use rayon::prelude::*;
use serde_json::json;

/// 128-bit digest of a canonical state key (keeps the frontier small; a collision would need two
/// different canonical keys with equal SipHash under two different keys)
fn digest(s: &str) -> (u64, u64) {
    (crate::mc::hash64(s), crate::mc::hash64(&("salt", s)))
}

pub enum Step<M> {
    Next(M),
    /// the model says the call is refused: the real call must panic
    Refused,
    /// the properties do not say: only "no crash of the harness"; not expanded
    Unspecified,
    /// a fallible helper whose closure fails: error returned, no builder
    ClosureError,
    /// op not applicable to this builder
    NotApplicable,
}

/// What the real builder did with one history.
pub enum Real {
    /// built value, rendered for comparison (Debug text or encoding)
    Built(String),
    Panicked(String),
    ClosureError,
}

pub struct Spec<'a, M> {
    pub pid: &'a str,
    pub name: &'a str,
    pub inits: Vec<(String, M)>,
    pub nops: usize,
    pub op_name: &'a (dyn Fn(usize) -> String + Sync),
    pub step: &'a (dyn Fn(&M, usize) -> Step<M> + Sync),
    /// canonical key of a model state
    pub key: &'a (dyn Fn(&M) -> String + Sync),
    /// expected rendering of the built value for a model state
    pub expect: &'a (dyn Fn(&M) -> String + Sync),
    /// run init + history on the real builder
    pub real: &'a (dyn Fn(usize, &[usize]) -> Real + Sync),
    /// extra checks on a reached state (model, init, history): pushes violations
    pub on_state: Option<&'a (dyn Fn(&M, usize, &[usize], &mut Local) + Sync)>,
}

pub fn history_name<M>(spec: &Spec<M>, init: usize, hist: &[usize]) -> String {
    let mut s = format!("{} {}", spec.name, spec.inits[init].0);
    for h in hist {
        s.push_str(" . ");
        s.push_str(&(spec.op_name)(*h));
    }
    s
}

/// Returns (states, transitions).
pub fn run<M: Clone + Send + Sync>(rep: &Report, spec: &Spec<M>, depth: usize, max_states: usize) -> (u64, u64) {
    let only = std::env::var("VERIF_ONLY_CASE").ok();
    let mut total_states = 0u64;
    let mut total_trans = 0u64;
    // frontier entries: (model, init index, history)
    let mut frontier: Vec<(M, usize, Vec<usize>)> = spec.inits.iter().enumerate().map(|(i, (_, m))| (m.clone(), i, vec![])).collect();
    let mut seen: std::collections::HashSet<(u64, u64)> = std::collections::HashSet::new();
    // initial states are checked too
    {
        let mut l = Local::default();
        for (m, init, hist) in &frontier {
            seen.insert(digest(&(spec.key)(m)));
            l.state(0);
            check_state(spec, m, *init, hist, &mut l, &only);
        }
        total_states += frontier.len() as u64;
        rep.merge(l);
    }
    for level in 1..=depth {
        let results: Vec<(Vec<((u64, u64), M, usize, Vec<usize>)>, Local)> = frontier
            .par_iter()
            .map(|(m, init, hist)| {
                let mut l = Local::default();
                let mut succ = Vec::new();
                for op in 0..spec.nops {
                    let st = (spec.step)(m, op);
                    if let Step::NotApplicable = st {
                        continue;
                    }
                    let mut h2 = hist.clone();
                    h2.push(op);
                    let case = history_name(spec, *init, &h2);
                    if let Some(o) = &only {
                        // replay mode: follow only prefixes of the recorded history
                        if !o.starts_with(&case) {
                            continue;
                        }
                    }
                    l.transitions += 1;
                    l.evaluations += 1;
                    l.impl_checked += 1;
                    let real = (spec.real)(*init, &h2);
                    let viol = |what: &str, expected: String, observed: String| Viol {
                        key: format!("{}:{}:{}:{}", spec.pid, what, spec.name, (spec.op_name)(op).split('(').next().unwrap_or("")),
                        space: format!("bfs.{}", spec.name),
                        case: case.clone(),
                        direct: None,
                        expected,
                        observed,
                    };
                    match (st, real) {
                        (Step::Next(m2), Real::Built(got)) => {
                            let want = (spec.expect)(&m2);
                            if got != want {
                                if only.as_ref().map_or(true, |o| *o == case) {
                                    l.viol(viol("effect-mismatch", want, got));
                                }
                            } else {
                                let k = digest(&(spec.key)(&m2));
                                succ.push((k, m2, *init, h2));
                            }
                        }
                        (Step::Next(_), Real::Panicked(p)) => l.viol(viol("unexpected-panic", "call accepted".into(), p)),
                        (Step::Next(_), Real::ClosureError) => l.viol(viol("unexpected-error", "call accepted".into(), "closure error reported".into())),
                        (Step::Refused, Real::Panicked(_)) => l.count("refusals_observed"),
                        (Step::Refused, Real::Built(g)) => l.viol(viol("no-documented-panic", "refused with the documented panic".into(), format!("accepted: {}", crate::mc::truncate(&g, 300)))),
                        (Step::Refused, Real::ClosureError) => l.viol(viol("no-documented-panic", "panic".into(), "closure error".into())),
                        (Step::ClosureError, Real::ClosureError) => l.count("closure_errors_passed_through"),
                        (Step::ClosureError, Real::Built(g)) => l.viol(viol("error-not-returned", "Err from the closure, no message".into(), crate::mc::truncate(&g, 300))),
                        (Step::ClosureError, Real::Panicked(p)) => l.viol(viol("unexpected-panic", "Err from the closure".into(), p)),
                        (Step::Unspecified, _) => l.count("unspecified_calls"),
                        (Step::NotApplicable, _) => {}
                    }
                }
                (succ, l)
            })
            .collect();
        let mut next: Vec<((u64, u64), M, usize, Vec<usize>)> = Vec::new();
        for (succ, l) in results {
            total_trans += l.transitions;
            rep.merge(l);
            next.extend(succ);
        }
        // canonical representative: smallest (init, history) per key; deterministic counts
        next.sort_by(|a, b| (&a.0, a.2, &a.3).cmp(&(&b.0, b.2, &b.3)));
        next.dedup_by(|b, a| a.0 == b.0);
        let mut fresh: Vec<(M, usize, Vec<usize>)> = Vec::new();
        for (k, m, init, hist) in next {
            if seen.insert(k) {
                fresh.push((m, init, hist));
            }
        }
        let mut l = Local::default();
        for (m, init, hist) in &fresh {
            l.state(level as u64);
            l.nontrivial(&(spec.name, (spec.key)(m)));
            // transitions were already counted per edge; undo the one `state` adds
            l.transitions -= 1;
            if l.samples.is_empty() && level == 2 && spec.on_state.is_none() {
                let c = history_name(spec, *init, hist);
                l.sample(|| json!({"space": format!("bfs.{}", spec.name), "history": c}));
            }
        }
        rep.merge(l);
        // state checks in parallel
        let ls: Vec<Local> = fresh
            .par_iter()
            .map(|(m, init, hist)| {
                let mut l = Local::default();
                check_state(spec, m, *init, hist, &mut l, &only);
                l
            })
            .collect();
        for l in ls {
            rep.merge(l);
        }
        total_states += fresh.len() as u64;
        rep.bound(&format!("bfs.{}.level{}_new_states", spec.name, level), json!(fresh.len()));
        frontier = fresh;
        if frontier.is_empty() {
            break;
        }
        if total_states as usize > max_states {
            rep.not_exhaustive(&format!("{}: state cap {} reached at depth {}", spec.name, max_states, level));
            break;
        }
    }
    // pumped histories (size thresholds): every operation repeated N times from every initial
    // state, and every operation followed by N repetitions of every other one, for N well beyond
    // the search depth
    if only.is_none() {
        let sizes = [9usize, 17, 33, 65, 129];
        let jobs: Vec<(usize, Option<usize>, usize)> = (0..spec.nops).flat_map(|op| {
            let mut v: Vec<(usize, Option<usize>, usize)> = sizes.iter().map(|n| (op, None, *n)).collect();
            for first in 0..spec.nops {
                v.push((op, Some(first), 17));
            }
            v
        }).collect();
        let ls: Vec<Local> = jobs
            .par_iter()
            .map(|(op, first, n)| {
                let mut l = Local::default();
                for (init, (_, m0)) in spec.inits.iter().enumerate().take(2) {
                    let mut hist: Vec<usize> = Vec::new();
                    let mut m = m0.clone();
                    let mut ok = true;
                    if let Some(f) = first {
                        match (spec.step)(&m, *f) {
                            Step::Next(m2) => {
                                m = m2;
                                hist.push(*f);
                            }
                            _ => ok = false,
                        }
                    }
                    for _ in 0..*n {
                        if !ok {
                            break;
                        }
                        match (spec.step)(&m, *op) {
                            Step::Next(m2) => {
                                m = m2;
                                hist.push(*op);
                            }
                            _ => ok = false,
                        }
                    }
                    if !ok {
                        continue;
                    }
                    l.state(hist.len() as u64);
                    l.evaluations += 1;
                    l.impl_checked += 1;
                    l.count("pumped_histories");
                    let want = (spec.expect)(&m);
                    let case = format!("{} {} . [{}]{} x {}", spec.name, spec.inits[init].0, first.map(|f| (spec.op_name)(f)).unwrap_or_default(), (spec.op_name)(*op), n);
                    let mk = |what: &str, expected: String, observed: String| Viol { key: format!("{}:{}:{}:{}", spec.pid, what, spec.name, (spec.op_name)(*op).split('(').next().unwrap_or("")), space: format!("bfs.{}", spec.name), case: case.clone(), direct: None, expected, observed };
                    match (spec.real)(init, &hist) {
                        Real::Built(got) => {
                            if got != want {
                                l.viol(mk("effect-mismatch-in-long-history", crate::mc::truncate(&want, 600), crate::mc::truncate(&got, 600)));
                            } else if let Some(f) = spec.on_state {
                                if *n <= 65 {
                                    f(&m, init, &hist, &mut l);
                                }
                            }
                        }
                        Real::Panicked(p) => l.viol(mk("unexpected-panic-in-long-history", "accepted".into(), p)),
                        Real::ClosureError => l.viol(mk("unexpected-error-in-long-history", "accepted".into(), "closure error".into())),
                    }
                }
                l
            })
            .collect();
        for l in ls {
            rep.merge(l);
        }
        rep.bound(&format!("bfs.{}.pumped_history_lengths", spec.name), json!(sizes));
    }
    rep.bound(&format!("bfs.{}.depth", spec.name), json!(depth));
    rep.bound(&format!("bfs.{}.states", spec.name), json!(total_states));
    rep.bound(&format!("bfs.{}.transitions", spec.name), json!(total_trans));
    (total_states, total_trans)
}

fn check_state<M>(spec: &Spec<M>, m: &M, init: usize, hist: &[usize], l: &mut Local, only: &Option<String>) {
    if let Some(f) = spec.on_state {
        if let Some(o) = only {
            if *o != history_name(spec, init, hist) {
                return;
            }
        }
        f(m, init, hist, l);
    }
}
