//! Every route to the to-be-signed / to-be-MACed / AEAD additional-data bytes of a concrete message
//! value, compared with the reference structures of RFC 8152 (sections 4.4, 5.3, 6.3).
//! Shared by C02, C03, C04, C05 (equality oracle) and C01 (no-panic on decoded values).

use crate::mc::{Local, Viol};
use crate::refcbor::{hex, read_exact, Item};
use crate::refcose::{enc_structure, mac_structure, sig_structure};
use crate::subject::catch;
use coset::{CborSerializable, CoseEncrypt, CoseEncrypt0, CoseMac, CoseMac0, CoseRecipient, CoseSign, CoseSign1, CoseSignature, EncryptionContext, Header, ProtectedHeader, SignatureContext};
use std::cell::RefCell;

pub struct Cx<'a> {
    pub pid: &'a str,
    pub space: &'a str,
    pub case: &'a str,
    /// compare with the reference (false: only absence of undocumented panics is checked)
    pub exact: bool,
    /// which structure families this property is about: 'S' Sig_structure, 'M' MAC_structure,
    /// 'E' Enc_structure (others are exercised for panics only)
    pub fams: &'a str,
    /// compare only the protected slot(s) of the structures (C02) instead of all bytes
    pub slots_only: bool,
    /// expected bytes of the top-level protected slot, when they are known from the wire (a value
    /// that was decoded and then edited must still contribute the bytes it was received with)
    pub body_override: Option<&'a [u8]>,
}

impl<'a> Cx<'a> {
    pub fn viol(&self, l: &mut Local, what: &str, expected: String, observed: String) {
        l.viol(Viol { key: format!("{}:{}", self.pid, what), space: self.space.to_string(), case: self.case.to_string(), direct: None, expected, observed });
    }
    fn on(&self, fam: char) -> bool {
        self.exact && self.fams.contains(fam)
    }
    fn cmp(&self, l: &mut Local, fam: char, what: &str, got: &[u8], want: &[u8]) {
        if !self.on(fam) {
            return;
        }
        l.impl_checked += 1;
        l.count("structures_compared");
        if self.slots_only {
            // the structure must be an array whose protected slot(s) carry the expected bytes
            let slots = |b: &[u8]| -> Option<Vec<Vec<u8>>> {
                match read_exact(b).ok()?.item() {
                    Item::Array(a) if a.len() >= 3 => {
                        let n = if a.len() == 5 { 2 } else { 1 };
                        a[1..=n].iter().map(|x| if let Item::Bytes(v) = x { Some(v.clone()) } else { None }).collect()
                    }
                    _ => None,
                }
            };
            let (g, w) = (slots(got), slots(want));
            if g.is_none() || g != w {
                self.viol(l, &format!("{}:protected-slot", what), format!("{:?}", w.map(|v| v.iter().map(|x| hex(x)).collect::<Vec<_>>())), hex(got));
            }
        } else if got != want {
            self.viol(l, what, hex(want), hex(got));
        }
    }
}

/// The bytes in array slot `idx` of an encoded message (independent parse of the subject's output).
pub fn slot_bytes(encoded: &[u8], path: &[usize]) -> Option<Vec<u8>> {
    let mut it = read_exact(encoded).ok()?.item();
    for p in path {
        it = match it {
            Item::Array(a) => a.get(*p)?.clone(),
            _ => return None,
        };
    }
    match it {
        Item::Bytes(b) => Some(b),
        _ => None,
    }
}

/// Protected bytes a value contributes: what its own encoding carries in the protected slot.
pub fn protected_bytes_of(p: &ProtectedHeader) -> Option<Vec<u8>> {
    // wrap it in the smallest carrier and read the slot back with the independent parser
    let carrier = CoseEncrypt0 { protected: p.clone(), unprotected: Header::default(), ciphertext: None };
    let enc = catch(|| carrier.to_vec()).ok()?.ok()?;
    slot_bytes(&enc, &[0])
}

#[derive(Clone, Copy, PartialEq)]
enum Ret {
    Ok,
    Err,
}

/// Run a verify-style helper with a recording closure, for both closure results.
fn verify_route<F>(cx: &Cx, l: &mut Local, fam: char, what: &str, want_first: &[u8], want_data: Option<&[u8]>, must_panic: bool, call: F)
where
    F: Fn(&dyn Fn(&[u8], &[u8]) -> Result<(), String>) -> Result<(), String>,
{
    for ret in [Ret::Ok, Ret::Err] {
        let seen: RefCell<Option<(Vec<u8>, Vec<u8>)>> = RefCell::new(None);
        let clo = |a: &[u8], b: &[u8]| -> Result<(), String> {
            *seen.borrow_mut() = Some((a.to_vec(), b.to_vec()));
            if ret == Ret::Ok {
                Ok(())
            } else {
                Err("closure-error-7".to_string())
            }
        };
        let r = catch(|| call(&clo));
        l.evaluations += 1;
        match (r, must_panic) {
            (Err(_), true) => {
                l.count("documented_panics_observed");
                if seen.borrow().is_some() && cx.on(fam) && !cx.slots_only {
                    cx.viol(l, &format!("{}:closure-called-before-refusal", what), "closure not called".into(), "called".into());
                }
            }
            (Err(p), false) => cx.viol(l, &format!("{}:panic", what), "no panic".into(), p),
            (Ok(_), true) => {
                if cx.on(fam) && !cx.slots_only {
                    cx.viol(l, &format!("{}:no-documented-panic", what), "refused with the documented panic".into(), "returned".into())
                }
            }
            (Ok(res), false) => {
                let s = seen.borrow().clone();
                match s {
                    None => {
                        if cx.on(fam) {
                            cx.viol(l, &format!("{}:closure-not-called", what), "closure called once".into(), "not called".into())
                        }
                    }
                    Some((first, data)) => {
                        if !cx.slots_only && cx.on(fam) && first != want_first {
                            cx.viol(l, &format!("{}:first-argument", what), hex(want_first), hex(&first));
                        }
                        if let Some(w) = want_data {
                            cx.cmp(l, fam, &format!("{}:data", what), &data, w);
                        }
                    }
                }
                let want_res: Result<(), String> = if ret == Ret::Ok { Ok(()) } else { Err("closure-error-7".to_string()) };
                if cx.on(fam) && !cx.slots_only && res != want_res {
                    cx.viol(l, &format!("{}:result-not-passed-through", what), format!("{:?}", want_res), format!("{:?}", res));
                }
            }
        }
    }
}

/// Same for decrypt-style helpers (closure returns plaintext).
fn decrypt_route<F>(cx: &Cx, l: &mut Local, fam: char, what: &str, want_ct: &[u8], want_aad: Option<&[u8]>, must_panic: bool, call: F)
where
    F: Fn(&dyn Fn(&[u8], &[u8]) -> Result<Vec<u8>, String>) -> Result<Vec<u8>, String>,
{
    for ret in [Ret::Ok, Ret::Err] {
        let seen: RefCell<Option<(Vec<u8>, Vec<u8>)>> = RefCell::new(None);
        let clo = |a: &[u8], b: &[u8]| -> Result<Vec<u8>, String> {
            *seen.borrow_mut() = Some((a.to_vec(), b.to_vec()));
            if ret == Ret::Ok {
                Ok(b"plain-text-9".to_vec())
            } else {
                Err("closure-error-7".to_string())
            }
        };
        let r = catch(|| call(&clo));
        l.evaluations += 1;
        match (r, must_panic) {
            (Err(_), true) => {
                l.count("documented_panics_observed");
                if seen.borrow().is_some() && cx.on(fam) && !cx.slots_only {
                    cx.viol(l, &format!("{}:closure-called-before-refusal", what), "closure not called".into(), "called".into());
                }
            }
            (Err(p), false) => cx.viol(l, &format!("{}:panic", what), "no panic".into(), p),
            (Ok(_), true) => {
                if cx.on(fam) && !cx.slots_only {
                    cx.viol(l, &format!("{}:no-documented-panic", what), "refused with the documented panic".into(), "returned".into())
                }
            }
            (Ok(res), false) => {
                let s = seen.borrow().clone();
                match s {
                    None => {
                        if cx.on(fam) {
                            cx.viol(l, &format!("{}:closure-not-called", what), "closure called once".into(), "not called".into())
                        }
                    }
                    Some((first, data)) => {
                        if !cx.slots_only && cx.on(fam) && first != want_ct {
                            cx.viol(l, &format!("{}:ciphertext-argument", what), hex(want_ct), hex(&first));
                        }
                        if let Some(w) = want_aad {
                            cx.cmp(l, fam, &format!("{}:aad", what), &data, w);
                        }
                    }
                }
                let want_res: Result<Vec<u8>, String> = if ret == Ret::Ok { Ok(b"plain-text-9".to_vec()) } else { Err("closure-error-7".to_string()) };
                if cx.on(fam) && !cx.slots_only && res != want_res {
                    cx.viol(l, &format!("{}:result-not-passed-through", what), format!("{:?}", want_res), format!("{:?}", res));
                }
            }
        }
    }
}

fn enc_of<T: CborSerializable + Clone>(cx: &Cx, l: &mut Local, m: &T) -> Option<Vec<u8>> {
    if !cx.exact {
        // panic detection only: the expected bytes are not needed (keeps the driver linear)
        return Some(vec![]);
    }
    match catch(|| m.clone().to_vec()) {
        Ok(Ok(b)) => Some(b),
        Ok(Err(_)) => None, // value has no encoding: outside the domain of the structure properties
        Err(p) => {
            cx.viol(l, "to_vec:panic", "no panic".into(), p);
            None
        }
    }
}

pub fn sign1(cx: &Cx, m: &CoseSign1, aads: &[&[u8]], detached: &[&[u8]], l: &mut Local) {
    let enc = match enc_of(cx, l, m) {
        Some(e) => e,
        None => return,
    };
    let body = cx.body_override.map(|b| b.to_vec()).unwrap_or_else(|| slot_bytes(&enc, &[0]).unwrap_or_default());
    let empty: Vec<u8> = vec![];
    for aad in aads {
        let want = sig_structure("Signature1", &body, None, aad, m.payload.as_ref().unwrap_or(&empty));
        match catch(|| m.tbs_data(aad)) {
            Ok(got) => cx.cmp(l, 'S', "Sign1.tbs_data", &got, &want),
            Err(p) => cx.viol(l, "Sign1.tbs_data:panic", "no panic".into(), p),
        }
        verify_route(cx, l, 'S', "Sign1.verify_signature", &m.signature, Some(&want), false, |c| m.verify_signature(aad, |s, d| c(s, d)));
        for p in detached {
            let wantd = sig_structure("Signature1", &body, None, aad, p);
            let refuse = m.payload.is_some();
            match (catch(|| m.tbs_detached_data(p, aad)), refuse) {
                (Ok(got), false) => cx.cmp(l, 'S', "Sign1.tbs_detached_data", &got, &wantd),
                (Err(_), true) => l.count("documented_panics_observed"),
                (Ok(_), true) => {
                    if cx.on('S') && !cx.slots_only {
                        cx.viol(l, "Sign1.tbs_detached_data:no-documented-panic", "panic (payload present)".into(), "returned".into())
                    }
                }
                (Err(pp), false) => cx.viol(l, "Sign1.tbs_detached_data:panic", "no panic".into(), pp),
            }
            verify_route(cx, l, 'S', "Sign1.verify_detached_signature", &m.signature, Some(&wantd), refuse, |c| m.verify_detached_signature(p, aad, |s, d| c(s, d)));
        }
    }
    counter_signatures(cx, &body, &m.protected, &m.unprotected, aads, m.payload.as_ref().unwrap_or(&empty), l);
}

pub fn sign(cx: &Cx, m: &CoseSign, aads: &[&[u8]], detached: &[&[u8]], l: &mut Local) {
    let enc = match enc_of(cx, l, m) {
        Some(e) => e,
        None => return,
    };
    let body = cx.body_override.map(|b| b.to_vec()).unwrap_or_else(|| slot_bytes(&enc, &[0]).unwrap_or_default());
    let empty: Vec<u8> = vec![];
    for (idx, sig) in m.signatures.iter().enumerate() {
        let sp = slot_bytes(&enc, &[3, idx, 0]).unwrap_or_default();
        for aad in aads {
            let want = sig_structure("Signature", &body, Some(&sp), aad, m.payload.as_ref().unwrap_or(&empty));
            match catch(|| m.tbs_data(aad, sig)) {
                Ok(got) => cx.cmp(l, 'S', "Sign.tbs_data", &got, &want),
                Err(p) => cx.viol(l, "Sign.tbs_data:panic", "no panic".into(), p),
            }
            verify_route(cx, l, 'S', "Sign.verify_signature", &sig.signature, Some(&want), false, |c| m.verify_signature(idx, aad, |s, d| c(s, d)));
            for p in detached {
                let wantd = sig_structure("Signature", &body, Some(&sp), aad, p);
                let refuse = m.payload.is_some();
                match (catch(|| m.tbs_detached_data(p, aad, sig)), refuse) {
                    (Ok(got), false) => cx.cmp(l, 'S', "Sign.tbs_detached_data", &got, &wantd),
                    (Err(_), true) => l.count("documented_panics_observed"),
                    (Ok(_), true) => {
                        if cx.on('S') && !cx.slots_only {
                            cx.viol(l, "Sign.tbs_detached_data:no-documented-panic", "panic (payload present)".into(), "returned".into())
                        }
                    }
                    (Err(pp), false) => cx.viol(l, "Sign.tbs_detached_data:panic", "no panic".into(), pp),
                }
                verify_route(cx, l, 'S', "Sign.verify_detached_signature", &sig.signature, Some(&wantd), refuse, |c| m.verify_detached_signature(idx, p, aad, |s, d| c(s, d)));
            }
        }
    }
    // an out-of-range index is a documented panic
    if cx.on('S') && !cx.slots_only {
        let n = m.signatures.len();
        verify_route(cx, l, 'S', "Sign.verify_signature[out-of-range]", &[], None, true, |c| m.verify_signature(n, b"", |s, d| c(s, d)));
    }
    counter_signatures(cx, &body, &m.protected, &m.unprotected, aads, m.payload.as_ref().unwrap_or(&empty), l);
}

/// Counter-signatures carried in either header of a message: the general structure function with
/// the message's protected header as body and the counter-signature's as sign_protected.
pub fn counter_signatures(cx: &Cx, body: &[u8], prot: &ProtectedHeader, unprot: &Header, aads: &[&[u8]], payload: &[u8], l: &mut Local) {
    for cs in prot.header.counter_signatures.iter().chain(unprot.counter_signatures.iter()) {
        let sp = if !cx.exact {
            vec![]
        } else {
            match protected_bytes_of(&cs.protected) {
                Some(b) => b,
                None => continue,
            }
        };
        for aad in aads {
            let want = sig_structure("CounterSignature", body, Some(&sp), aad, payload);
            match catch(|| coset::sig_structure_data(SignatureContext::CounterSignature, prot.clone(), Some(cs.protected.clone()), aad, payload)) {
                Ok(got) => cx.cmp(l, 'S', "sig_structure_data[CounterSignature]", &got, &want),
                Err(p) => cx.viol(l, "sig_structure_data[CounterSignature]:panic", "no panic".into(), p),
            }
        }
    }
}

/// The general structure function, all three contexts, sign_protected present or absent.
pub fn sig_structure_fn(cx: &Cx, body: &ProtectedHeader, sign_p: Option<&ProtectedHeader>, aad: &[u8], payload: &[u8], l: &mut Local) {
    let bb = match protected_bytes_of(body) {
        Some(b) => b,
        None => return,
    };
    let sb = match sign_p {
        Some(s) => match protected_bytes_of(s) {
            Some(b) => Some(b),
            None => return,
        },
        None => None,
    };
    for (ctx, text) in [(SignatureContext::CoseSignature, "Signature"), (SignatureContext::CoseSign1, "Signature1"), (SignatureContext::CounterSignature, "CounterSignature")] {
        let want = sig_structure(text, &bb, sb.as_deref(), aad, payload);
        match catch(|| coset::sig_structure_data(ctx, body.clone(), sign_p.cloned(), aad, payload)) {
            Ok(got) => cx.cmp(l, 'S', &format!("sig_structure_data[{}]", text), &got, &want),
            Err(p) => cx.viol(l, "sig_structure_data:panic", "no panic".into(), p),
        }
    }
}

pub fn mac(cx: &Cx, m: &CoseMac, aads: &[&[u8]], l: &mut Local) {
    let enc = match enc_of(cx, l, m) {
        Some(e) => e,
        None => return,
    };
    let body = cx.body_override.map(|b| b.to_vec()).unwrap_or_else(|| slot_bytes(&enc, &[0]).unwrap_or_default());
    for aad in aads {
        let want = m.payload.as_ref().map(|p| mac_structure("MAC", &body, aad, p));
        verify_route(cx, l, 'M', "Mac.verify_tag", &m.tag, want.as_deref(), m.payload.is_none(), |c| m.verify_tag(aad, |t, d| c(t, d)));
        if let Some(p) = &m.payload {
            let w = mac_structure("MAC", &body, aad, p);
            match catch(|| coset::mac_structure_data(coset::MacContext::CoseMac, m.protected.clone(), aad, p)) {
                Ok(got) => cx.cmp(l, 'M', "mac_structure_data[MAC]", &got, &w),
                Err(pp) => cx.viol(l, "mac_structure_data:panic", "no panic".into(), pp),
            }
        }
    }
    for (i, r) in m.recipients.iter().enumerate() {
        recipient(cx, r, &enc, &[4, i], aads, l);
    }
    let empty = vec![];
    counter_signatures(cx, &body, &m.protected, &m.unprotected, aads, m.payload.as_ref().unwrap_or(&empty), l);
}

pub fn mac0(cx: &Cx, m: &CoseMac0, aads: &[&[u8]], l: &mut Local) {
    let enc = match enc_of(cx, l, m) {
        Some(e) => e,
        None => return,
    };
    let body = cx.body_override.map(|b| b.to_vec()).unwrap_or_else(|| slot_bytes(&enc, &[0]).unwrap_or_default());
    for aad in aads {
        let want = m.payload.as_ref().map(|p| mac_structure("MAC0", &body, aad, p));
        verify_route(cx, l, 'M', "Mac0.verify_tag", &m.tag, want.as_deref(), m.payload.is_none(), |c| m.verify_tag(aad, |t, d| c(t, d)));
        if let Some(p) = &m.payload {
            let w = mac_structure("MAC0", &body, aad, p);
            match catch(|| coset::mac_structure_data(coset::MacContext::CoseMac0, m.protected.clone(), aad, p)) {
                Ok(got) => cx.cmp(l, 'M', "mac_structure_data[MAC0]", &got, &w),
                Err(pp) => cx.viol(l, "mac_structure_data:panic", "no panic".into(), pp),
            }
        }
    }
    let empty = vec![];
    counter_signatures(cx, &body, &m.protected, &m.unprotected, aads, m.payload.as_ref().unwrap_or(&empty), l);
}

pub fn encrypt(cx: &Cx, m: &CoseEncrypt, aads: &[&[u8]], l: &mut Local) {
    let enc = match enc_of(cx, l, m) {
        Some(e) => e,
        None => return,
    };
    let body = cx.body_override.map(|b| b.to_vec()).unwrap_or_else(|| slot_bytes(&enc, &[0]).unwrap_or_default());
    let empty = vec![];
    for aad in aads {
        let want = enc_structure("Encrypt", &body, aad);
        decrypt_route(cx, l, 'E', "Encrypt.decrypt", m.ciphertext.as_ref().unwrap_or(&empty), Some(&want), m.ciphertext.is_none(), |c| m.decrypt(aad, |ct, a| c(ct, a)));
        match catch(|| coset::enc_structure_data(EncryptionContext::CoseEncrypt, m.protected.clone(), aad)) {
            Ok(got) => cx.cmp(l, 'E', "enc_structure_data[Encrypt]", &got, &want),
            Err(pp) => cx.viol(l, "enc_structure_data:panic", "no panic".into(), pp),
        }
    }
    for (i, r) in m.recipients.iter().enumerate() {
        recipient(cx, r, &enc, &[3, i], aads, l);
    }
}

pub fn encrypt0(cx: &Cx, m: &CoseEncrypt0, aads: &[&[u8]], l: &mut Local) {
    let enc = match enc_of(cx, l, m) {
        Some(e) => e,
        None => return,
    };
    let body = cx.body_override.map(|b| b.to_vec()).unwrap_or_else(|| slot_bytes(&enc, &[0]).unwrap_or_default());
    let empty = vec![];
    for aad in aads {
        let want = enc_structure("Encrypt0", &body, aad);
        decrypt_route(cx, l, 'E', "Encrypt0.decrypt", m.ciphertext.as_ref().unwrap_or(&empty), Some(&want), m.ciphertext.is_none(), |c| m.decrypt(aad, |ct, a| c(ct, a)));
        match catch(|| coset::enc_structure_data(EncryptionContext::CoseEncrypt0, m.protected.clone(), aad)) {
            Ok(got) => cx.cmp(l, 'E', "enc_structure_data[Encrypt0]", &got, &want),
            Err(pp) => cx.viol(l, "enc_structure_data:panic", "no panic".into(), pp),
        }
    }
}

pub const REC_CONTEXTS: [(EncryptionContext, &str); 3] = [(EncryptionContext::EncRecipient, "Enc_Recipient"), (EncryptionContext::MacRecipient, "Mac_Recipient"), (EncryptionContext::RecRecipient, "Rec_Recipient")];

/// A recipient found at `path` inside the encoding `enc` of its outermost carrier.
pub fn recipient(cx: &Cx, r: &CoseRecipient, enc: &[u8], path: &[usize], aads: &[&[u8]], l: &mut Local) {
    let mut pp = path.to_vec();
    pp.push(0);
    let body = match (path.is_empty(), cx.body_override) {
        (true, Some(b)) => b.to_vec(),
        _ => slot_bytes(enc, &pp).unwrap_or_default(),
    };
    let empty = vec![];
    for aad in aads {
        for (ctx, text) in REC_CONTEXTS {
            let want = enc_structure(text, &body, aad);
            decrypt_route(cx, l, 'E', &format!("Recipient.decrypt[{}]", text), r.ciphertext.as_ref().unwrap_or(&empty), Some(&want), r.ciphertext.is_none(), |c| r.decrypt(ctx, aad, |ct, a| c(ct, a)));
        }
        if cx.on('E') && !cx.slots_only {
            for ctx in [EncryptionContext::CoseEncrypt, EncryptionContext::CoseEncrypt0] {
                decrypt_route(cx, l, 'E', "Recipient.decrypt[non-recipient-context]", &[], None, true, |c| r.decrypt(ctx, aad, |ct, a| c(ct, a)));
            }
        }
    }
    for (i, n) in r.recipients.iter().enumerate() {
        let mut np = path.to_vec();
        np.push(3);
        np.push(i);
        recipient(cx, n, enc, &np, aads, l);
    }
}

pub fn recipient_top(cx: &Cx, r: &CoseRecipient, aads: &[&[u8]], l: &mut Local) {
    if let Some(enc) = enc_of(cx, l, r) {
        recipient(cx, r, &enc, &[], aads, l);
    }
}

pub fn signature_as_countersig(cx: &Cx, s: &CoseSignature, aads: &[&[u8]], l: &mut Local) {
    // a bare COSE_Signature used as a counter-signature over an empty body
    let body = ProtectedHeader::default();
    for aad in aads {
        sig_structure_fn(cx, &body, Some(&s.protected), aad, b"", l);
    }
}

/// Dispatch on a decoded value of unknown concrete type.
pub fn on_any(cx: &Cx, v: &dyn std::any::Any, aads: &[&[u8]], detached: &[&[u8]], l: &mut Local) -> bool {
    if let Some(m) = v.downcast_ref::<CoseSign1>() {
        sign1(cx, m, aads, detached, l);
    } else if let Some(m) = v.downcast_ref::<CoseSign>() {
        sign(cx, m, aads, detached, l);
    } else if let Some(m) = v.downcast_ref::<CoseMac>() {
        mac(cx, m, aads, l);
    } else if let Some(m) = v.downcast_ref::<CoseMac0>() {
        mac0(cx, m, aads, l);
    } else if let Some(m) = v.downcast_ref::<CoseEncrypt>() {
        encrypt(cx, m, aads, l);
    } else if let Some(m) = v.downcast_ref::<CoseEncrypt0>() {
        encrypt0(cx, m, aads, l);
    } else if let Some(m) = v.downcast_ref::<CoseRecipient>() {
        recipient_top(cx, m, aads, l);
    } else if let Some(m) = v.downcast_ref::<CoseSignature>() {
        signature_as_countersig(cx, m, aads, l);
    } else {
        return false;
    }
    true
}
