//! C11 — encoding emits exactly the modelled content in the documented CBOR shape.
//! Also hosts the encode half of C12 (`dup_encode`) and the value palettes shared with C20.

use super::{Ex, Scale};
use crate::gen::{arr, b, i, map, t, u};
use crate::mc::{odometer, par_partitions, Local, Report, Viol};
use crate::refcbor::{hex, read_all, read_exact, Enc, Item, ReadAll, NULL, TRUE};
use crate::refcose::*;
use crate::refiana::{self, Reg};
use crate::subject::{self, Outcome};
use serde_json::json;

pub fn run(rep: &Report) -> u64 {
    rep.set_rule("C11: full products of per-field palettes for every type (headers 3240, protected headers with and without retained bytes, the 8 message types with nested signatures/recipients to depth 2, keys 720, key sets, claims sets 2304, party/supp-pub/KDF contexts, labels of every class, all registered values of every registry label type); for each value: to_vec succeeds, the output is definite-length CBOR with shortest heads, an independent parse equals the reference encoding (maps modulo entry order, extras in given relative order, protected slots parsed), and decoding the output returns the original value; non-trivial = values with at least one populated field; distinct by reference encoding + retained bytes");
    rep.assume("reference encoder (refcose::encode) transliterates the CDDL and the omission rules of the property statement");
    explore(&Ex::own(rep, crate::oracle::Checks::NONE));
    1000
}

// ---------------------------------------------------------------------------------------------
// Comparison helpers

/// Equality for encoder output: maps modulo entry order except that entries whose key is not one
/// of the small typed labels 1..=7 must keep their relative order; byte strings that differ are
/// compared as encoded maps (protected headers).
pub fn eq_cose(out: &Item, exp: &Item) -> bool {
    match (out, exp) {
        (Item::Map(x), Item::Map(y)) => {
            if x.len() != y.len() {
                return false;
            }
            let mut used = vec![false; x.len()];
            'outer: for (k, v) in y {
                for (j, (k2, v2)) in x.iter().enumerate() {
                    if !used[j] && k == k2 && eq_cose(v2, v) {
                        used[j] = true;
                        continue 'outer;
                    }
                }
                return false;
            }
            let extra = |m: &Vec<(Item, Item)>| -> Vec<Item> { m.iter().filter(|(k, _)| !matches!(k, Item::UInt(1..=7))).map(|(k, _)| k.clone()).collect() };
            extra(x) == extra(y)
        }
        (Item::Array(x), Item::Array(y)) => x.len() == y.len() && x.iter().zip(y).all(|(p, q)| eq_cose(p, q)),
        (Item::Tag(a, x), Item::Tag(c, y)) => a == c && eq_cose(x, y),
        (Item::Bytes(x), Item::Bytes(y)) => {
            if x == y {
                return true;
            }
            match (read_all(x), read_all(y)) {
                (ReadAll::One(ex), ReadAll::One(ey)) => {
                    let (ix, iy) = (ex.item(), ey.item());
                    matches!(ix, Item::Map(_)) && ex.is_definite() && eq_cose(&ix, &iy)
                }
                _ => false,
            }
        }
        _ => out == exp,
    }
}

/// Replace every `original_data: Some([..])` / `original_data: None` in a Debug string.
pub fn strip_original(d: &str) -> String {
    let pat = "original_data: ";
    let mut out = String::with_capacity(d.len());
    let mut rest = d;
    while let Some(p) = rest.find(pat) {
        out.push_str(&rest[..p + pat.len()]);
        out.push('_');
        let after = &rest[p + pat.len()..];
        if after.starts_with("None") {
            rest = &after[4..];
        } else if after.starts_with("Some([") {
            let end = after.find("])").map(|e| e + 2).unwrap_or(after.len());
            rest = &after[end..];
        } else {
            rest = after;
        }
    }
    out.push_str(rest);
    out
}

/// Do all maps in the item (including maps inside byte strings that are exactly one encoded map)
/// have pairwise distinct keys?
pub fn all_maps_distinct(i: &Item) -> bool {
    match i {
        Item::Map(m) => {
            for (a, (k, v)) in m.iter().enumerate() {
                if m[a + 1..].iter().any(|(k2, _)| k2 == k) {
                    return false;
                }
                if !all_maps_distinct(k) || !all_maps_distinct(v) {
                    return false;
                }
            }
            true
        }
        Item::Array(a) => a.iter().all(all_maps_distinct),
        Item::Tag(_, x) => all_maps_distinct(x),
        Item::Bytes(bs) => match read_all(bs) {
            ReadAll::One(e) if matches!(e, Enc::Map(..)) => all_maps_distinct(&e.item()),
            _ => true,
        },
        _ => true,
    }
}

// ---------------------------------------------------------------------------------------------
// Palettes

pub fn l_int(v: i64) -> RLabel {
    RLabel::Int(v)
}
pub fn l_text(s: &str) -> RLabel {
    RLabel::Text(s.to_string())
}

pub fn sig_reps() -> Vec<RSignature> {
    let h_alg = RHeader { alg: Some(l_int(-7)), ..Default::default() };
    let h_kid = RHeader { key_id: b"11".to_vec(), ..Default::default() };
    vec![
        RSignature { protected: RProtected::default(), unprotected: RHeader::default(), signature: vec![] },
        RSignature { protected: RProtected { original: None, header: h_alg.clone() }, unprotected: h_kid.clone(), signature: b"sig".to_vec() },
        RSignature {
            protected: RProtected { original: Some(enc_header(&h_alg).det()), header: h_alg.clone() },
            unprotected: RHeader { rest: vec![(l_int(99), u(1))], ..Default::default() },
            signature: vec![0xaa; 24],
        },
    ]
}

pub fn rest_palette() -> Vec<Vec<(RLabel, Item)>> {
    vec![
        vec![],
        vec![(l_int(8), t("x"))],
        vec![(l_text("a"), NULL), (l_int(-1), u(1))],
        vec![(l_int(-1), u(1)), (l_text("a"), NULL)],
        vec![(l_int(300), arr(vec![u(1), map(vec![(u(2), u(1)), (u(1), u(2))])])), (l_int(0), TRUE), (l_int(-70000), Item::float(1.5))],
        // a dozen extras in no sorted order (any per-size strategy switch in the encoder sees both sides)
        vec![
            (l_text("zz"), u(0)),
            (l_int(1000), u(1)),
            (l_int(-1), u(2)),
            (l_text("a"), u(3)),
            (l_int(99), u(4)),
            (l_int(-70000), u(5)),
            (l_int(24), u(6)),
            (l_text(""), u(7)),
            (l_int(65536), u(8)),
            (l_int(-25), u(9)),
            (l_int(8), u(10)),
            (l_text("b"), u(11)),
        ],
    ]
}

pub fn header_values(full: bool) -> Vec<RHeader> {
    let algs = [None, Some(l_int(-7)), Some(l_text("t")), Some(l_int(-65537))];
    let crits: [Vec<RLabel>; 3] = [vec![], vec![l_int(1)], vec![l_int(4), l_text("x")]];
    let cts = [None, Some(l_int(0)), Some(l_text("a/b"))];
    let kids: [Vec<u8>; 2] = [vec![], b"k".to_vec()];
    let ivs: [(Vec<u8>, Vec<u8>); 3] = [(vec![], vec![]), (b"iv".to_vec(), vec![]), (vec![], b"p".to_vec())];
    let sigs = sig_reps();
    let css: [Vec<RSignature>; 4] = [vec![], vec![sigs[1].clone()], vec![sigs[0].clone(), sigs[2].clone()], vec![sigs[2].clone(), sigs[1].clone(), sigs[0].clone()]];
    let rests = rest_palette();
    let mut out = Vec::new();
    odometer(&[algs.len(), crits.len(), cts.len(), kids.len(), ivs.len(), css.len(), rests.len()], |d| {
        if !full {
            // reduced: at most two non-default fields
            if d.iter().filter(|x| **x != 0).count() > 2 {
                return;
            }
        }
        out.push(RHeader {
            alg: algs[d[0]].clone(),
            crit: crits[d[1]].clone(),
            content_type: cts[d[2]].clone(),
            key_id: kids[d[3]].clone(),
            iv: ivs[d[4]].0.clone(),
            partial_iv: ivs[d[4]].1.clone(),
            counter_signatures: css[d[5]].clone(),
            rest: rests[d[6]].clone(),
        });
    });
    out
}

/// Headers with exactly one field populated, one per field (what an emptiness test could forget).
pub fn single_field_headers() -> Vec<RHeader> {
    let s = sig_reps();
    vec![
        RHeader { alg: Some(l_int(-7)), ..Default::default() },
        RHeader { crit: vec![l_int(1)], ..Default::default() },
        RHeader { content_type: Some(l_int(0)), ..Default::default() },
        RHeader { key_id: b"k".to_vec(), ..Default::default() },
        RHeader { iv: b"i".to_vec(), ..Default::default() },
        RHeader { partial_iv: b"p".to_vec(), ..Default::default() },
        RHeader { counter_signatures: vec![s[0].clone()], ..Default::default() },
        RHeader { rest: vec![(l_int(99), NULL)], ..Default::default() },
    ]
}

/// A handful of headers for use inside larger structures.
pub fn header_reps() -> Vec<RHeader> {
    let s = sig_reps();
    vec![
        RHeader::default(),
        RHeader { alg: Some(l_int(-7)), ..Default::default() },
        RHeader { counter_signatures: vec![s[1].clone()], ..Default::default() },
        RHeader { rest: vec![(l_int(8), t("x"))], ..Default::default() },
        RHeader { alg: Some(l_int(1)), key_id: b"kid".to_vec(), iv: b"iv".to_vec(), content_type: Some(l_int(60)), crit: vec![l_int(4)], rest: vec![(l_text("z"), NULL), (l_int(-1), b(b"\x00"))], ..Default::default() },
        RHeader { partial_iv: b"p".to_vec(), counter_signatures: vec![s[0].clone(), s[2].clone()], ..Default::default() },
    ]
}

/// Protected headers: every representative header without retained bytes, with its deterministic
/// bytes retained, and with a non-canonical encoding retained; the empty header in its three forms.
pub fn protected_reps() -> Vec<RProtected> {
    let mut v = vec![
        RProtected { original: None, header: RHeader::default() },
        RProtected { original: Some(vec![]), header: RHeader::default() },
        RProtected { original: Some(vec![0xa0]), header: RHeader::default() },
        RProtected { original: Some(vec![0xbf, 0xff]), header: RHeader::default() },
    ];
    for h in single_field_headers() {
        v.push(RProtected { original: None, header: h });
    }
    for h in header_reps().into_iter().skip(1) {
        v.push(RProtected { original: None, header: h.clone() });
        let det = enc_header(&h).det();
        v.push(RProtected { original: Some(det), header: h.clone() });
        // non-canonical: indefinite-length map with reversed entries
        if let Item::Map(mut m) = enc_header(&h) {
            m.reverse();
            let e = Enc::MapIndef(m.iter().map(|(k, x)| (Enc::canonical(k), Enc::canonical(x))).collect());
            // reversing changes extras order, so the parsed view differs: recompute it
            let mut c = Ctx::default();
            let hdr = header_map(&mut c, &e.item());
            if c.faults.is_empty() {
                v.push(RProtected { original: Some(e.to_bytes()), header: hdr });
            }
        }
    }
    v
}

pub fn recipient_reps() -> Vec<RRecipient> {
    let p = protected_reps();
    let h = header_reps();
    let r0 = RRecipient { protected: p[0].clone(), unprotected: h[0].clone(), ciphertext: None, recipients: vec![] };
    let r1 = RRecipient { protected: p[12].clone(), unprotected: h[3].clone(), ciphertext: Some(b"ct".to_vec()), recipients: vec![] };
    let r2 = RRecipient { protected: p[13].clone(), unprotected: h[1].clone(), ciphertext: Some(vec![]), recipients: vec![r0.clone(), r1.clone()] };
    let r3 = RRecipient { protected: p[0].clone(), unprotected: h[4].clone(), ciphertext: None, recipients: vec![r2.clone()] };
    vec![r0, r1, r2, r3]
}

pub fn key_values(full: bool) -> Vec<RKey> {
    let ktys = [l_int(1), l_text("t"), l_int(4)];
    let kids: [Vec<u8>; 2] = [vec![], b"kid".to_vec()];
    let algs = [None, Some(l_int(-7)), Some(l_text("a"))];
    let ops: [Vec<RLabel>; 4] = [vec![], vec![l_int(1)], vec![l_int(2), l_int(1)], vec![l_text("x"), l_int(3)]];
    let ivs: [Vec<u8>; 2] = [vec![], b"iv".to_vec()];
    let params: Vec<Vec<(RLabel, Item)>> = vec![
        vec![],
        vec![(l_int(-1), u(1))],
        vec![(l_int(-1), u(1)), (l_int(-2), b(b"x")), (l_int(-3), TRUE)],
        vec![(l_int(6), u(1))],
        vec![(l_text("z"), NULL), (l_int(100), arr(vec![])), (l_int(-4), b(b"d"))],
    ];
    let mut out = Vec::new();
    odometer(&[ktys.len(), kids.len(), algs.len(), ops.len(), ivs.len(), params.len()], |d| {
        if !full && d.iter().filter(|x| **x != 0).count() > 2 {
            return;
        }
        let mut key_ops = ops[d[3]].clone();
        sort_ops(&mut key_ops);
        out.push(RKey { kty: ktys[d[0]].clone(), key_id: kids[d[1]].clone(), alg: algs[d[2]].clone(), key_ops, base_iv: ivs[d[4]].clone(), params: params[d[5]].clone() });
    });
    out
}

/// key_ops is a set; the reference keeps it in the order of the deterministic encodings so that
/// the constructed BTreeSet and the reference agree on content (order is not compared).
pub fn sort_ops(v: &mut Vec<RLabel>) {
    v.sort_by_key(|l| l.item().det());
    v.dedup();
}

pub fn claims_values(full: bool) -> Vec<RClaims> {
    let iss = [None, Some(String::new()), Some("i".to_string())];
    let sub = [None, Some("s".to_string())];
    let aud = [None, Some("a".to_string())];
    // whole-valued floats sit next to the integers denoting the same instant
    let exp = [None, Some(RTime::Whole(0)), Some(RTime::Frac(0.0f64.to_bits())), Some(RTime::Whole(i64::MIN)), Some(RTime::Frac((i64::MIN as f64).to_bits())), Some(RTime::Frac(1.5f64.to_bits()))];
    let nbf = [None, Some(RTime::Whole(i64::MAX))];
    let iat = [None, Some(RTime::Frac((-0.0f64).to_bits()))];
    let cti: [Option<Vec<u8>>; 3] = [None, Some(vec![]), Some(b"c".to_vec())];
    let rests: Vec<Vec<(RLabel, Item)>> = vec![
        vec![],
        vec![(l_int(8), map(vec![(u(1), u(2))]))],
        vec![(l_int(-65537), u(1)), (l_text("t"), NULL)],
        vec![(l_int(0), u(1)), (l_int(38), u(2)), (l_int(-260), map(vec![]))],
    ];
    let mut out = Vec::new();
    odometer(&[iss.len(), sub.len(), aud.len(), exp.len(), nbf.len(), iat.len(), cti.len(), rests.len()], |d| {
        if !full && d.iter().filter(|x| **x != 0).count() > 2 {
            return;
        }
        out.push(RClaims {
            iss: iss[d[0]].clone(),
            sub: sub[d[1]].clone(),
            aud: aud[d[2]].clone(),
            exp: exp[d[3]].clone(),
            nbf: nbf[d[4]].clone(),
            iat: iat[d[5]].clone(),
            cti: cti[d[6]].clone(),
            rest: rests[d[7]].clone(),
        });
    });
    out
}

pub fn party_values() -> Vec<RParty> {
    let ids: [Option<Vec<u8>>; 3] = [None, Some(vec![]), Some(b"id".to_vec())];
    let nonces = [None, Some(RNonce::Bytes(vec![])), Some(RNonce::Bytes(b"n".to_vec())), Some(RNonce::Int(0)), Some(RNonce::Int(i64::MIN)), Some(RNonce::Int(i64::MAX))];
    let mut out = Vec::new();
    odometer(&[ids.len(), nonces.len(), ids.len()], |d| {
        out.push(RParty { identity: ids[d[0]].clone(), nonce: nonces[d[1]].clone(), other: ids[d[2]].clone() });
    });
    out
}

pub fn supp_pub_values() -> Vec<RSuppPub> {
    let mut out = Vec::new();
    for kdl in [0u64, 128, u64::MAX] {
        for p in protected_reps() {
            for o in [None, Some(vec![]), Some(b"o".to_vec())] {
                out.push(RSuppPub { key_data_length: kdl, protected: p.clone(), other: o });
            }
        }
    }
    out
}

/// All values of the palette for the type list of DESIGN 4.11.
pub fn values(ex: &Ex) -> Vec<RVal> {
    let full = ex.scale != Scale::Small;
    let mut v: Vec<RVal> = Vec::new();
    for h in header_values(full) {
        v.push(RVal::Header(h));
    }
    let prot = protected_reps();
    let hdrs = header_reps();
    let sigs = sig_reps();
    let recs = recipient_reps();
    for p in &prot {
        v.push(RVal::Protected(RProtected { original: None, header: p.header.clone() }));
    }
    let payloads: [Option<Vec<u8>>; 3] = [None, Some(vec![]), Some(b"payload".to_vec())];
    let blobs: [Vec<u8>; 2] = [vec![], vec![0x5a; 30]];
    let sig_lists: Vec<Vec<RSignature>> = vec![vec![], vec![sigs[1].clone()], vec![sigs[0].clone(), sigs[2].clone()], vec![sigs[2].clone(), sigs[1].clone(), sigs[0].clone()]];
    let rec_lists: Vec<Vec<RRecipient>> = vec![vec![], vec![recs[1].clone()], vec![recs[0].clone(), recs[2].clone()], vec![recs[3].clone()]];
    for p in &prot {
        for h in &hdrs {
            for s in &blobs {
                v.push(RVal::Signature(RSignature { protected: p.clone(), unprotected: h.clone(), signature: s.clone() }));
            }
            for pl in &payloads {
                for s in &blobs {
                    v.push(RVal::Sign1(RSign1 { protected: p.clone(), unprotected: h.clone(), payload: pl.clone(), signature: s.clone() }));
                    v.push(RVal::Mac0(RMac0 { protected: p.clone(), unprotected: h.clone(), payload: pl.clone(), tag: s.clone() }));
                }
                v.push(RVal::Encrypt0(REncrypt0 { protected: p.clone(), unprotected: h.clone(), ciphertext: pl.clone() }));
                for sl in &sig_lists {
                    v.push(RVal::Sign(RSign { protected: p.clone(), unprotected: h.clone(), payload: pl.clone(), signatures: sl.clone() }));
                }
                for rl in &rec_lists {
                    v.push(RVal::Encrypt(REncrypt { protected: p.clone(), unprotected: h.clone(), ciphertext: pl.clone(), recipients: rl.clone() }));
                    v.push(RVal::Recipient(RRecipient { protected: p.clone(), unprotected: h.clone(), ciphertext: pl.clone(), recipients: rl.clone() }));
                    v.push(RVal::Mac(RMac { protected: p.clone(), unprotected: h.clone(), payload: pl.clone(), tag: blobs[1].clone(), recipients: rl.clone() }));
                }
            }
        }
    }
    // lists in which elements repeat in patterns (A,B,A / A,B,B / A,A,B / A,B,C,A): an encoder that
    // reuses work between neighbouring or equal elements must still write each element's own bytes
    {
        let pats: [&[usize]; 5] = [&[0, 1, 0], &[0, 1, 1], &[0, 0, 1], &[0, 1, 2, 0], &[1, 2, 2, 1]];
        // three elements with different *built*, non-empty protected headers
        let built = |h: RHeader| RProtected { original: None, header: h };
        let hs = [RHeader { alg: Some(l_int(-7)), ..Default::default() }, RHeader { key_id: b"b".to_vec(), ..Default::default() }, RHeader { alg: Some(l_int(-8)), key_id: b"c".to_vec(), ..Default::default() }];
        for pat in pats {
            let sl: Vec<RSignature> = pat.iter().map(|k| RSignature { protected: built(hs[*k].clone()), unprotected: RHeader::default(), signature: vec![*k as u8] }).collect();
            let rl: Vec<RRecipient> = pat.iter().map(|k| RRecipient { protected: built(hs[*k].clone()), unprotected: RHeader::default(), ciphertext: Some(vec![*k as u8]), recipients: vec![] }).collect();
            v.push(RVal::Recipient(RRecipient { protected: prot[0].clone(), unprotected: hdrs[0].clone(), ciphertext: None, recipients: pat.iter().map(|k| recs[*k].clone()).collect() }));
            v.push(RVal::Sign(RSign { protected: prot[0].clone(), unprotected: hdrs[0].clone(), payload: None, signatures: pat.iter().map(|k| sigs[*k].clone()).collect() }));
            v.push(RVal::Sign(RSign { protected: prot[0].clone(), unprotected: hdrs[0].clone(), payload: Some(b"p".to_vec()), signatures: sl.clone() }));
            v.push(RVal::Header(RHeader { counter_signatures: sl.clone(), ..Default::default() }));
            v.push(RVal::Protected(RProtected { original: None, header: RHeader { counter_signatures: sl, ..Default::default() } }));
            v.push(RVal::Encrypt(REncrypt { protected: prot[0].clone(), unprotected: hdrs[0].clone(), ciphertext: Some(b"c".to_vec()), recipients: rl.clone() }));
            v.push(RVal::Mac(RMac { protected: prot[0].clone(), unprotected: hdrs[0].clone(), payload: Some(b"p".to_vec()), tag: vec![1], recipients: rl.clone() }));
            v.push(RVal::Recipient(RRecipient { protected: prot[0].clone(), unprotected: hdrs[0].clone(), ciphertext: None, recipients: rl }));
        }
    }
    // signers whose protected headers have the same content in different retained bytes
    {
        let h_alg = RHeader { alg: Some(l_int(-7)), ..Default::default() };
        let wire = |bytes: &[u8], h: &RHeader, sig: u8| RSignature { protected: RProtected { original: Some(bytes.to_vec()), header: h.clone() }, unprotected: RHeader::default(), signature: vec![sig] };
        let sl = vec![sigs[1].clone(), wire(&[0xa1, 0x01, 0x38, 0x06], &h_alg, 1), sigs[0].clone(), wire(&[0xa0], &RHeader::default(), 2), wire(&[0xbf, 0x01, 0x26, 0xff], &h_alg, 3)];
        v.push(RVal::Sign(RSign { protected: prot[0].clone(), unprotected: hdrs[0].clone(), payload: Some(b"p".to_vec()), signatures: sl.clone() }));
        v.push(RVal::Header(RHeader { counter_signatures: sl, ..Default::default() }));
    }
    // long lists (size thresholds): 17, 65 and 100 signers / recipients / keys / priv-info strings
    for n in [17usize, 65, 100] {
        let many_sigs: Vec<RSignature> = (0..n).map(|k| { let mut s = sigs[k % 3].clone(); s.signature = vec![k as u8]; s }).collect();
        let many_recs: Vec<RRecipient> = (0..n).map(|k| { let mut r = recs[k % 2].clone(); r.ciphertext = Some(vec![k as u8]); r }).collect();
        v.push(RVal::Sign(RSign { protected: prot[0].clone(), unprotected: hdrs[1].clone(), payload: None, signatures: many_sigs.clone() }));
        v.push(RVal::Encrypt(REncrypt { protected: prot[0].clone(), unprotected: hdrs[0].clone(), ciphertext: None, recipients: many_recs.clone() }));
        v.push(RVal::Mac(RMac { protected: prot[0].clone(), unprotected: hdrs[0].clone(), payload: Some(vec![1]), tag: vec![2], recipients: many_recs.clone() }));
        v.push(RVal::Recipient(RRecipient { protected: prot[0].clone(), unprotected: hdrs[0].clone(), ciphertext: None, recipients: many_recs }));
        v.push(RVal::Header(RHeader { counter_signatures: many_sigs, crit: (0..n).map(|_| l_int(4)).collect(), ..Default::default() }));
        v.push(RVal::KeySet((0..n).map(|k| RKey { kty: l_int(1), key_id: vec![k as u8 + 1], alg: None, key_ops: vec![], base_iv: vec![], params: vec![] }).collect()));
        let mut ops: Vec<RLabel> = (0..n).map(|k| l_text(&format!("op{}", k))).collect();
        sort_ops(&mut ops);
        v.push(RVal::Key(RKey { kty: l_int(1), key_id: vec![], alg: None, key_ops: ops, base_iv: vec![], params: (0..n).map(|k| (l_int(-100 - k as i64), u(k as u64))).collect() }));
        v.push(RVal::Claims(RClaims { rest: (0..n).map(|k| (l_text(&format!("c{}", k)), u(k as u64))).collect(), ..Default::default() }));
    }
    let keys = key_values(full);
    for k in &keys {
        v.push(RVal::Key(k.clone()));
    }
    v.push(RVal::KeySet(vec![]));
    v.push(RVal::KeySet(vec![keys[0].clone()]));
    v.push(RVal::KeySet(vec![keys[1].clone(), keys[keys.len() - 1].clone(), keys[keys.len() / 2].clone()]));
    for c in claims_values(full) {
        v.push(RVal::Claims(c));
    }
    let parties = party_values();
    for p in &parties {
        v.push(RVal::Party(p.clone()));
    }
    let supps = supp_pub_values();
    for s in &supps {
        v.push(RVal::SuppPub(s.clone()));
    }
    for alg in [l_int(-7), l_int(1), l_int(-65535)] {
        for (pi, p) in parties.iter().enumerate().step_by(5) {
            for s in supps.iter().step_by(7) {
                for priv_ in [vec![], vec![b"p".to_vec()], vec![b"p".to_vec(), vec![]]] {
                    v.push(RVal::Kdf(RKdf { alg: alg.clone(), u: p.clone(), v: parties[(pi * 7 + 3) % parties.len()].clone(), supp_pub: s.clone(), supp_priv: priv_ }));
                }
            }
        }
    }
    // labels of every class
    for x in crate::gen::label_ints(false) {
        v.push(RVal::Label(l_int(x)));
    }
    for s in crate::gen::label_texts(false) {
        v.push(RVal::Label(RLabel::Text(s)));
    }
    for rt in REG_TYS {
        for (_, val) in refiana::table(rt.reg) {
            v.push(RVal::RegLabel(rt, l_int(*val)));
        }
        if rt.with_private {
            for p in [-65537i64, -65538, -(1 << 31), i64::MIN] {
                v.push(RVal::RegLabel(rt, l_int(p)));
            }
        }
        for s in ["", "a", "text label"] {
            v.push(RVal::RegLabel(rt, l_text(s)));
        }
    }
    for tm in [RTime::Whole(0), RTime::Whole(-1), RTime::Whole(i64::MAX), RTime::Whole(i64::MIN), RTime::Frac(1.5f64.to_bits()), RTime::Frac(1.0e300f64.to_bits()), RTime::Frac(f64::INFINITY.to_bits())] {
        v.push(RVal::Timestamp(tm));
    }
    let _ = Reg::Algorithm;
    v
}

// ---------------------------------------------------------------------------------------------

fn viol(pid: &str, what: &str, rv: &RVal, expected: String, observed: String) -> Viol {
    Viol { key: format!("{}:{}:{:?}", pid, what, rv.ty()), space: "c11.values".into(), case: format!("{:?}", rv), direct: None, expected, observed }
}

pub fn check_value(pid: &str, rv: &RVal, l: &mut Local) {
    let case = format!("{:?}", rv);
    if let Ok(only) = std::env::var("VERIF_ONLY_CASE") {
        if only != case {
            return;
        }
    }
    l.evaluations += 1;
    let exp = encode(rv);
    // model sanity: the reference decoder accepts the reference encoding
    match decode(rv.ty(), &exp) {
        Verdict::Accept(_) | Verdict::Unspecified(_) => {}
        Verdict::Reject { faults, .. } => {
            l.viol(viol(pid, "MODEL-palette-value-not-well-formed", rv, "reference accepts its own encoding".into(), format!("{:?}", faults)));
            return;
        }
    }
    let subj = match subject::construct(rv) {
        Ok(Some(s)) => s,
        Ok(None) => return,
        Err(e) => {
            l.viol(viol(pid, "cannot-construct", rv, "constructible".into(), e));
            return;
        }
    };
    l.impl_checked += 1;
    if exp != Item::Map(vec![]) && exp != Item::Array(vec![]) {
        l.nontrivial(&(exp.det(), format!("{:?}", rv).len()));
    }
    let bytes = match subj.to_vec() {
        Outcome::Ok(x) => x,
        o => {
            l.viol(viol(pid, "encode-failed", rv, "to_vec Ok".into(), o.brief()));
            return;
        }
    };
    let e = match read_exact(&bytes) {
        Ok(e) => e,
        Err(err) => {
            l.viol(viol(pid, "output-not-cbor", rv, "one well-formed CBOR item".into(), format!("{}: {}", err, hex(&bytes))));
            return;
        }
    };
    // the property asks for well-formed definite-length CBOR (head widths are not pinned here)
    if !e.is_definite() {
        l.viol(viol(pid, "output-not-definite-length", rv, "definite lengths".into(), hex(&bytes)));
    }
    let out = e.item();
    if !eq_cose(&out, &exp) {
        l.viol(viol(pid, "output-differs", rv, format!("{:?}", exp), format!("{:?}", out)));
    }
    // decoding the output returns the original value
    match subject::decode(rv.ty(), &bytes) {
        Outcome::Ok(v2) => {
            let (a, bb) = (strip_original(&v2.debug()), strip_original(&subj.debug()));
            if a != bb {
                l.viol(viol(pid, "decode-of-output-differs", rv, bb, a));
            }
        }
        o => l.viol(viol(pid, "decode-of-output-failed", rv, "Ok".into(), o.brief())),
    }
    if let Some(t) = subj.to_tagged_vec() {
        match t {
            Outcome::Ok(tb) => {
                let tag = tag_of(rv.ty()).unwrap();
                match read_exact(&tb) {
                    Ok(te) => {
                        if !eq_cose(&te.item(), &Item::tag(tag, exp.clone())) || !te.is_definite() {
                            l.viol(viol(pid, "tagged-output-differs", rv, format!("{}({:?})", tag, exp), format!("{:?}", te.item())));
                        }
                    }
                    Err(err) => l.viol(viol(pid, "tagged-output-not-cbor", rv, "well-formed".into(), err)),
                }
            }
            o => l.viol(viol(pid, "tagged-encode-failed", rv, "Ok".into(), o.brief())),
        }
    }
}

/// Headers nested through counter-signatures k levels deep (via protected / unprotected, single /
/// array form).  Only those the subject's own decoder accepts are in C11's domain (an
/// implementation may bound the nesting; the encoder must then handle everything the decoder does).
fn nested_chains(ex: &Ex) {
    let kmax = ex.pick(8usize, 24, 40);
    ex.bound("c11.nesting", "depth_max", json!(kmax));
    let mut work: Vec<(usize, bool, bool)> = Vec::new();
    for k in 1..=kmax {
        for prot in [true, false] {
            for array in [true, false] {
                work.push((k, prot, array));
            }
        }
    }
    let build = |k: usize, prot: bool, array: bool| -> Vec<RVal> {
        let mut h = RHeader { alg: Some(l_int(-7)), ..Default::default() };
        for _ in 0..k {
            let sig = if prot {
                RSignature { protected: RProtected { original: None, header: h.clone() }, unprotected: RHeader::default(), signature: vec![1] }
            } else {
                RSignature { protected: RProtected::default(), unprotected: h.clone(), signature: vec![2] }
            };
            let css = if array { vec![sig_reps()[0].clone(), sig] } else { vec![sig] };
            h = RHeader { counter_signatures: css, ..Default::default() };
        }
        vec![RVal::Header(h.clone()), RVal::Sign1(RSign1 { protected: RProtected { original: None, header: h.clone() }, unprotected: h.clone(), payload: None, signature: vec![] })]
    };
    // the deepest chain of any kind the decoder accepts
    let mut deepest = 0usize;
    for (k, prot, array) in &work {
        if build(*k, *prot, *array).iter().all(|rv| subject::decode(rv.ty(), &encode(rv).det()).is_ok()) {
            deepest = deepest.max(*k);
        }
    }
    ex.bound("c11.nesting", "deepest_chain_the_decoder_accepts", json!(deepest));
    par_partitions(ex.rep, work, |(k, prot, array), l| {
        for rv in build(*k, *prot, *array) {
            l.state(*k as u64);
            // domain: the decoder accepts the reference encoding
            let bytes = encode(&rv).det();
            match subject::decode(rv.ty(), &bytes) {
                Outcome::Ok(_) => {
                    l.count("c11.nesting.within_decoder_limit");
                    check_value(ex.pid, &rv, l);
                }
                o => {
                    l.count("c11.nesting.beyond_decoder_limit");
                    // the bound on nesting must be a function of the depth alone: a chain no deeper
                    // than one the decoder demonstrably handles is a well-formed value like any other
                    if *k <= deepest {
                        l.viol(viol(ex.pid, "nesting-limit-depends-on-the-path", &rv, format!("decodes (chains {} levels deep are accepted through other header positions)", deepest), o.brief()));
                    }
                }
            }
        }
    });
}

pub fn explore(ex: &Ex) {
    nested_chains(ex);
    let vals = values(ex);
    ex.bound("c11.values", "values", json!(vals.len()));
    let chunks: Vec<&[RVal]> = vals.chunks(256).collect();
    par_partitions(ex.rep, chunks, |chunk, l| {
        for rv in chunk.iter() {
            l.state(1);
            if l.samples.is_empty() {
                l.sample(|| json!({"space": "c11.values", "value": crate::mc::truncate(&format!("{:?}", rv), 300), "reference_encoding": hex(&encode(rv).det())}));
            }
            check_value(ex.pid, rv, l);
        }
    });
    eq_discriminates(ex, &vals);
}

/// The `==` the round-trip statement is phrased in tells values apart whenever their encodings
/// differ: every pair of palette values of one type at most `WINDOW` apart in enumeration order
/// (neighbours differ in few fields).  Negative zero is left out: -0.0 == 0.0 yet they encode
/// differently.
fn eq_discriminates(ex: &Ex, vals: &[RVal]) {
    const WINDOW: usize = 256;
    let mut by_ty: std::collections::BTreeMap<String, Vec<&RVal>> = Default::default();
    for v in vals {
        by_ty.entry(format!("{:?}", v.ty())).or_default().push(v);
    }
    let groups: Vec<(String, Vec<&RVal>)> = by_ty.into_iter().collect();
    par_partitions(ex.rep, groups, |(ty, g), l| {
        let built: Vec<Option<(subject::BoxSubj, Vec<u8>, String)>> = g
            .iter()
            .map(|rv| {
                let s = subject::construct(rv).ok()??;
                let b = s.to_vec().ok()?;
                let d = s.debug();
                if d.contains("-0.0") || d.contains("NaN") {
                    return None;
                }
                Some((s, b, d))
            })
            .collect();
        for i in 0..built.len() {
            let Some((si, bi, _)) = &built[i] else { continue };
            for j in (i + 1)..built.len().min(i + 1 + WINDOW) {
                let Some((sj, bj, _)) = &built[j] else { continue };
                if bi == bj {
                    continue;
                }
                let case = format!("{:?} == {:?}", g[i], g[j]);
                if let Ok(only) = std::env::var("VERIF_ONLY_CASE") {
                    if only != case {
                        continue;
                    }
                }
                l.evaluations += 1;
                l.impl_checked += 1;
                l.count("c11.eq_pairs");
                match si.eq_dyn(sj.as_ref()) {
                    Some(Ok(false)) | None => {}
                    Some(r) => l.viol(Viol {
                        key: format!("{}:eq-conflates-values-with-different-encodings:{}", ex.pid, ty),
                        space: "c11.eq".into(),
                        case,
                        direct: None,
                        expected: format!("!= (encodings {} and {})", hex(bi), hex(bj)),
                        observed: format!("{:?}", r),
                    }),
                }
            }
        }
    });
}

// ---------------------------------------------------------------------------------------------
// C12, encode side

/// In-memory headers, keys and claims sets that would put a label into their map twice.
fn colliding_values(full: bool) -> Vec<(RVal, &'static str)> {
    // (value, collides?) — control cases (typed field not populated) do not collide
    let mut v: Vec<(RVal, &'static str)> = Vec::new();
    // incl. labels that have a typed field (left empty here): 1, 4, 7 in headers; 2, 5 in keys
    let labels = [l_int(8), l_int(-1), l_text("a"), l_int(i64::MIN), l_int(0), l_int(300), l_int(4), l_int(1), l_int(7), l_int(2), l_int(5)];
    // (a) two equal extra labels at every pair of positions among 2..4 extras
    for n in 2..=4usize {
        for p1 in 0..n {
            for p2 in (p1 + 1)..n {
                for dup in &labels {
                    let mut rest: Vec<(RLabel, Item)> = Vec::new();
                    let mut k = 0;
                    for pos in 0..n {
                        if pos == p1 || pos == p2 {
                            rest.push((dup.clone(), u(pos as u64)));
                        } else {
                            rest.push((l_int(1000 + k), u(0)));
                            k += 1;
                        }
                    }
                    v.push((RVal::Header(RHeader { rest: rest.clone(), ..Default::default() }), "extras"));
                    v.push((RVal::Key(RKey { kty: l_int(1), key_id: vec![], alg: None, key_ops: vec![], base_iv: vec![], params: rest.clone() }), "extras"));
                    let crest: Vec<(RLabel, Item)> = rest
                        .iter()
                        .map(|(l, x)| {
                            // claim names must be registered / private / text
                            let l2 = match l {
                                RLabel::Int(1000) => l_int(8),
                                RLabel::Int(1001) => l_int(9),
                                RLabel::Int(8) => l_int(38),
                                RLabel::Int(-1) => l_int(-65537),
                                RLabel::Int(300) => l_int(39),
                                RLabel::Int(0) => l_int(0),
                                other => other.clone(),
                            };
                            (l2, x.clone())
                        })
                        .collect();
                    v.push((RVal::Claims(RClaims { rest: crest, ..Default::default() }), "extras"));
                }
                if !full {
                    break;
                }
            }
        }
    }
    // (b) an extra label equal to a typed label, with the typed field populated / not populated
    let sig = sig_reps()[1].clone();
    let sigs = sig_reps();
    for populated in [true, false] {
        for typed in 1..=7i64 {
            // every shape variant of the populated typed field (they take different encoder branches)
            let variants: Vec<RHeader> = if !populated {
                vec![RHeader::default()]
            } else {
                match typed {
                    1 => vec![RHeader { alg: Some(l_int(-7)), ..Default::default() }, RHeader { alg: Some(l_text("t")), ..Default::default() }, RHeader { alg: Some(l_int(-65537)), ..Default::default() }],
                    2 => vec![RHeader { crit: vec![l_int(1)], ..Default::default() }, RHeader { crit: vec![l_int(1), l_text("x")], ..Default::default() }],
                    3 => vec![RHeader { content_type: Some(l_int(0)), ..Default::default() }, RHeader { content_type: Some(l_text("a/b")), ..Default::default() }],
                    4 => vec![RHeader { key_id: b"k".to_vec(), ..Default::default() }],
                    5 => vec![RHeader { iv: b"i".to_vec(), ..Default::default() }],
                    6 => vec![RHeader { partial_iv: b"p".to_vec(), ..Default::default() }],
                    _ => vec![
                        RHeader { counter_signatures: vec![sig.clone()], ..Default::default() },
                        RHeader { counter_signatures: vec![sigs[0].clone(), sig.clone()], ..Default::default() },
                        RHeader { counter_signatures: vec![sigs[2].clone(), sigs[0].clone(), sig.clone()], ..Default::default() },
                    ],
                }
            };
            for h in variants {
                // exactly one extra: the clash is with the typed field alone
                let mut h1 = h.clone();
                h1.rest = vec![(l_int(typed), NULL)];
                v.push((RVal::Header(h1), if populated { "typed-field" } else { "control" }));
                for extra_pos in [0usize, 1] {
                    let mut rest = vec![(l_int(1000), u(0))];
                    rest.insert(extra_pos, (l_int(typed), NULL));
                    let mut hh = h.clone();
                    hh.rest = rest;
                    v.push((RVal::Header(hh), if populated { "typed-field" } else { "control" }));
                }
            }
        }
        for typed in 1..=5i64 {
            let mut k = RKey { kty: l_int(1), key_id: vec![], alg: None, key_ops: vec![], base_iv: vec![], params: vec![] };
            if populated {
                match typed {
                    1 => {}
                    2 => k.key_id = b"k".to_vec(),
                    3 => k.alg = Some(l_int(-7)),
                    4 => k.key_ops = vec![l_int(1)],
                    _ => k.base_iv = b"i".to_vec(),
                }
            }
            let mut k1 = k.clone();
            k1.params = vec![(l_int(typed), NULL)];
            v.push((RVal::Key(k1), if populated || typed == 1 { "typed-field" } else { "control" }));
            k.params = vec![(l_int(typed), NULL), (l_int(-1), u(1))];
            // kty is always emitted, so label 1 always collides
            v.push((RVal::Key(k.clone()), if populated || typed == 1 { "typed-field" } else { "control" }));
            if populated {
                // further shapes of the typed field, and the clashing extra in last position
                let mut k2 = k.clone();
                match typed {
                    1 => k2.kty = l_text("t"),
                    3 => k2.alg = Some(l_text("a")),
                    4 => {
                        k2.key_ops = vec![l_int(1), l_int(2), l_text("x")];
                        sort_ops(&mut k2.key_ops);
                    }
                    _ => {}
                }
                k2.params = vec![(l_int(-1), u(1)), (l_text("z"), u(2)), (l_int(typed), NULL)];
                v.push((RVal::Key(k2), "typed-field"));
            }
        }
        for typed in 1..=7i64 {
            let mut c = RClaims::default();
            if populated {
                match typed {
                    1 => c.iss = Some("i".into()),
                    2 => c.sub = Some("s".into()),
                    3 => c.aud = Some("a".into()),
                    4 => c.exp = Some(RTime::Whole(1)),
                    5 => c.nbf = Some(RTime::Whole(1)),
                    6 => c.iat = Some(RTime::Whole(1)),
                    _ => c.cti = Some(b"c".to_vec()),
                }
            }
            let mut c1 = c.clone();
            c1.rest = vec![(l_int(typed), NULL)];
            v.push((RVal::Claims(c1), if populated { "typed-field" } else { "control" }));
            c.rest = vec![(l_int(8), u(0)), (l_int(typed), NULL)];
            v.push((RVal::Claims(c), if populated { "typed-field" } else { "control" }));
        }
    }
    v
}

/// Embed a header in every in-memory carrier.
fn embed_header(h: &RHeader) -> Vec<RVal> {
    let p = RProtected { original: None, header: h.clone() };
    let e = RHeader::default();
    let sig_p = RSignature { protected: p.clone(), unprotected: e.clone(), signature: vec![] };
    let sig_u = RSignature { protected: RProtected::default(), unprotected: h.clone(), signature: vec![] };
    let rec_p = RRecipient { protected: p.clone(), unprotected: e.clone(), ciphertext: None, recipients: vec![] };
    let rec_u = RRecipient { protected: RProtected::default(), unprotected: h.clone(), ciphertext: None, recipients: vec![] };
    vec![
        RVal::Sign1(RSign1 { protected: p.clone(), ..Default::default() }),
        RVal::Sign1(RSign1 { unprotected: h.clone(), ..Default::default() }),
        RVal::Sign(RSign { signatures: vec![sig_p.clone()], ..Default::default() }),
        RVal::Sign(RSign { signatures: vec![RSignature::default(), sig_u.clone()], ..Default::default() }),
        RVal::Mac(RMac { recipients: vec![rec_p.clone()], ..Default::default() }),
        RVal::Mac0(RMac0 { unprotected: h.clone(), ..Default::default() }),
        RVal::Encrypt(REncrypt { recipients: vec![RRecipient { recipients: vec![rec_u.clone()], ..Default::default() }], ..Default::default() }),
        RVal::Encrypt0(REncrypt0 { protected: p.clone(), ..Default::default() }),
        RVal::Recipient(rec_u.clone()),
        RVal::Signature(sig_p.clone()),
        RVal::Header(RHeader { counter_signatures: vec![sig_u.clone()], ..Default::default() }),
        RVal::Header(RHeader { counter_signatures: vec![RSignature::default(), sig_p.clone()], ..Default::default() }),
        RVal::SuppPub(RSuppPub { key_data_length: 1, protected: p.clone(), other: None }),
        RVal::Protected(p.clone()),
    ]
}

pub fn dup_encode(ex: &Ex) {
    let vals = colliding_values(ex.scale != Scale::Small);
    ex.bound("c12.encode", "values", json!(vals.len()));
    // (value, class, map kind, direct|embedded)
    let mut all: Vec<(RVal, &'static str, &'static str, &'static str)> = Vec::new();
    for (rv, class) in vals {
        match &rv {
            RVal::Header(h) => {
                for e in embed_header(h) {
                    all.push((e, class, "Header", "embedded"));
                }
                all.push((rv, class, "Header", "direct"));
            }
            RVal::Key(k) => {
                all.push((RVal::KeySet(vec![RKey { kty: l_int(2), key_id: vec![], alg: None, key_ops: vec![], base_iv: vec![], params: vec![] }, k.clone()]), class, "Key", "embedded"));
                all.push((rv, class, "Key", "direct"));
            }
            _ => all.push((rv, class, "Claims", "direct")),
        }
    }
    let chunks: Vec<&[(RVal, &'static str, &'static str, &'static str)]> = all.chunks(64).collect();
    par_partitions(ex.rep, chunks, |chunk, l| {
        for (rv, class, map_kind, how) in chunk.iter() {
            let case = format!("{:?}", rv);
            if let Ok(only) = std::env::var("VERIF_ONLY_CASE") {
                if only != case {
                    continue;
                }
            }
            l.state(1);
            l.evaluations += 1;
            let subj = match subject::construct(rv) {
                Ok(Some(s)) => s,
                _ => continue,
            };
            l.impl_checked += 1;
            let collides = *class != "control";
            l.count(&format!("c12.encode.{}", class));
            if collides {
                l.nontrivial(&case);
            }
            if l.samples.is_empty() && collides {
                l.sample(|| json!({"space": "c12.encode", "class": class, "value": crate::mc::truncate(&case, 300)}));
            }
            let mk = |what: &str, expected: String, observed: String| Viol { key: format!("C12:{}:{}:{}", what, map_kind, class), space: "c12.encode".into(), case: case.clone(), direct: None, expected, observed };
            match subj.to_vec() {
                Outcome::Panic(p) => l.viol(mk("encode-panic", "Ok or Err".into(), p)),
                Outcome::Err(_) => {
                    l.count("c12.encode.refused");
                    if !collides {
                        l.viol(mk("encode-refuses-distinct-labels", "Ok (no label repeated)".into(), "Err".into()));
                    }
                }
                Outcome::Ok(bytes) => match read_exact(&bytes) {
                    Ok(e) => {
                        if !all_maps_distinct(&e.item()) {
                            l.viol(mk("encode-emits-duplicate", format!("encoding fails, or every map has pairwise distinct keys ({})", how), format!("{} = {:?}", hex(&bytes), e.item())));
                        }
                    }
                    Err(err) => l.viol(mk("encode-output-not-cbor", "well-formed".into(), err)),
                },
            }
        }
    });
}
