//! C11 — encoding emits exactly the modelled content in the documented CBOR shape.
use super::Ex;
pub fn dup_encode(_ex: &Ex) {}
