//! The universal decode oracle: one byte string, one entry point of the real crate, compared with
//! the reference reader + reference rules.  The individual properties choose generators and which
//! components of the oracle apply.

use crate::mc::{Local, Viol};
use crate::refcbor::{hex, read_all, read_exact, Item, ReadAll, ReadErr};
use crate::refcose::{self, FaultKind, RVal, Ty, Verdict};
use crate::subject::{self, BoxSubj, ErrKind, Outcome};
use serde_json::json;

#[derive(Clone, Copy, PartialEq, Eq, Hash, Debug)]
pub enum Entry {
    /// `T::from_slice`
    Slice,
    /// `T::from_tagged_slice`
    Tagged,
    /// `ProtectedHeader::from_cbor_bstr(parse(bytes))`
    Bstr,
}

impl Entry {
    pub fn name(self) -> &'static str {
        match self {
            Entry::Slice => "slice",
            Entry::Tagged => "tagged",
            Entry::Bstr => "bstr",
        }
    }
    pub fn parse(s: &str) -> Option<Entry> {
        match s {
            "slice" => Some(Entry::Slice),
            "tagged" => Some(Entry::Tagged),
            "bstr" => Some(Entry::Bstr),
            _ => None,
        }
    }
}

#[derive(Clone, Copy, Debug, Default)]
pub struct Checks {
    /// accept/reject must equal the reference verdict, and on accept the fields must match
    pub iff: bool,
    /// single-fault inputs of these kinds must produce the named error
    pub kind_dup: bool,
    pub kind_range: bool,
    pub kind_extraneous: bool,
    /// C07
    pub fixed_point: bool,
    /// C13 second half
    pub layers: bool,
    /// C13 first half
    pub prefixes: bool,
    pub suffixes: bool,
    /// C15: an accepted value re-encodes with minimal integer heads (output is deterministic)
    pub det_output: bool,
    /// C15: the re-encoding of an accepted input has the same data-model content as the input
    /// (maps modulo entry order); only meaningful for inputs built so that nothing is omitted
    pub same_item: bool,
    /// C01: every follow-up operation on an accepted value must not panic
    pub followups: bool,
}

impl Checks {
    pub const IFF: Checks = Checks { iff: true, kind_dup: false, kind_range: false, kind_extraneous: false, fixed_point: false, layers: false, prefixes: false, suffixes: false, det_output: false, same_item: false, followups: false };
    pub const NONE: Checks = Checks { iff: false, kind_dup: false, kind_range: false, kind_extraneous: false, fixed_point: false, layers: false, prefixes: false, suffixes: false, det_output: false, same_item: false, followups: false };
}

pub fn ty_name(t: Ty) -> String {
    format!("{:?}", t)
}

pub fn parse_ty(s: &str) -> Option<Ty> {
    refcose::all_types().into_iter().find(|t| ty_name(*t) == s)
}

pub struct Case<'a> {
    pub pid: &'a str,
    pub space: &'a str,
    pub ty: Ty,
    pub entry: Entry,
    pub bytes: &'a [u8],
}

impl<'a> Case<'a> {
    fn viol(&self, what: &str, detail: &str, expected: String, observed: String) -> Viol {
        Viol {
            key: format!("{}:{}:{}:{}", self.pid, what, ty_name(self.ty), detail),
            space: self.space.to_string(),
            case: format!("{} {} {}", ty_name(self.ty), self.entry.name(), hex(self.bytes)),
            direct: Some(json!({"kind": "decode", "ty": ty_name(self.ty), "entry": self.entry.name(), "hex": hex(self.bytes), "space": self.space})),
            expected,
            observed,
        }
    }
}

pub fn subject_decode(ty: Ty, entry: Entry, b: &[u8]) -> Outcome<BoxSubj> {
    match entry {
        Entry::Slice => subject::decode(ty, b),
        Entry::Tagged => subject::decode_tagged(ty, b),
        Entry::Bstr => match subject::parse_value(b) {
            Outcome::Ok((v, used)) => {
                if used != b.len() {
                    Outcome::Err(ErrKind::ExtraneousData)
                } else {
                    subject::decode_protected_bstr(v)
                }
            }
            Outcome::Err(e) => Outcome::Err(e),
            Outcome::Panic(p) => Outcome::Panic(p),
        },
    }
}

/// Reference verdict for a byte string at an entry point.
pub fn reference(ty: Ty, entry: Entry, b: &[u8]) -> (Verdict, Option<Item>) {
    let rej = |rule: &'static str, kind: FaultKind| Verdict::Reject { faults: vec![refcose::Fault { rule, kind }], clean: true };
    match read_all(b) {
        ReadAll::Err(ReadErr::TooDeep) => (Verdict::Unspecified(vec!["deep nesting".into()]), None),
        ReadAll::Err(ReadErr::Malformed("two-byte simple value below 32")) => {
            (Verdict::Unspecified(vec!["two-byte encoding of a simple value below 32".into()]), None)
        }
        ReadAll::Err(_) => (rej("not one well-formed CBOR item", FaultKind::Other), None),
        ReadAll::Trailing(e, _) => {
            // C13: an *accepted* input followed by anything is rejected with the extraneous-data
            // error; if the first item is itself unacceptable only rejection is required.
            let it = e.item();
            let v = verdict_for(ty, entry, &it);
            match v {
                Verdict::Accept(_) => (rej("trailing data after an acceptable item", FaultKind::Extraneous), Some(it)),
                Verdict::Reject { mut faults, .. } => {
                    faults.push(refcose::Fault { rule: "trailing data", kind: FaultKind::Extraneous });
                    (Verdict::Reject { faults, clean: false }, Some(it))
                }
                Verdict::Unspecified(_) => (Verdict::Reject { faults: vec![refcose::Fault { rule: "trailing data", kind: FaultKind::Extraneous }], clean: false }, Some(it)),
            }
        }
        ReadAll::One(e) => {
            let it = e.item();
            (verdict_for(ty, entry, &it), Some(it))
        }
    }
}

pub fn verdict_for(ty: Ty, entry: Entry, it: &Item) -> Verdict {
    match entry {
        Entry::Slice => refcose::decode(ty, it),
        Entry::Tagged => refcose::decode_tagged(ty, it),
        Entry::Bstr => {
            let mut c = refcose::Ctx::default();
            if it.has_unassigned_simple() {
                return Verdict::Unspecified(vec!["unassigned simple value".into()]);
            }
            if it.has_bignum_tag() {
                return Verdict::Unspecified(vec!["bignum tag".into()]);
            }
            let p = refcose::protected(&mut c, it);
            c.finish(Some(RVal::Protected(p)))
        }
    }
}

fn expected_kind(k: FaultKind) -> Option<ErrKind> {
    match k {
        FaultKind::Duplicate => Some(ErrKind::DuplicateMapKey),
        FaultKind::OutOfRange => Some(ErrKind::OutOfRange),
        FaultKind::Extraneous => Some(ErrKind::ExtraneousData),
        _ => None,
    }
}

/// Compare an accepted subject value with the reference value.
fn compare_fields(case: &Case, v: &BoxSubj, r: &RVal, l: &mut Local, tag: &str) {
    match subject::construct(r) {
        Err(e) => l.viol(case.viol("cannot-construct-expected", tag, format!("{:?}", r), e)),
        Ok(Some(exp)) => {
            let (a, b) = (v.debug(), exp.debug());
            if a != b {
                l.viol(case.viol("field-mismatch", tag, b, a));
            } else if !a.contains("NaN") {
                // a copy of the decoded value (clone, clone_from into a built value) is the same
                // value: same view, same retained bytes, same encoding
                if let Ok(false) | Err(_) = v.clone_eq() {
                    l.viol(case.viol("copy-differs", tag, "clone / clone_from copy indistinguishable from the decoded value".into(), "differs or panicked".into()));
                }
            }
        }
        Ok(None) => {
            // KDF context with an algorithm the builder cannot express: compare the re-encoding
            match v.to_vec() {
                Outcome::Ok(bytes) => match read_exact(&bytes) {
                    Ok(e) => {
                        let want = refcose::encode(r);
                        if !refcose::eq_mod_map_order(&e.item(), &want) {
                            l.viol(case.viol("field-mismatch-by-reencoding", tag, format!("{:?}", want), format!("{:?}", e.item())));
                        }
                    }
                    Err(e) => l.viol(case.viol("output-not-cbor", tag, "well-formed CBOR".into(), e)),
                },
                o => l.viol(case.viol("reencode-failed", tag, "Ok".into(), o.brief())),
            }
        }
    }
}

/// The suffixes appended to accepted inputs (C13).
pub fn suffix_alphabet() -> Vec<Vec<u8>> {
    let mut v: Vec<Vec<u8>> = (0u16..256).map(|b| vec![b as u8]).collect();
    for s in ["a0", "40", "80", "f6", "8440a0f640", "1903e8", "ffff", "5f", "d2"] {
        v.push(crate::refcbor::unhex(s).unwrap());
    }
    v
}

pub fn check_decode(case: &Case, checks: &Checks, l: &mut Local) {
    l.evaluations += 1;
    l.impl_checked += 1;
    let out = subject_decode(case.ty, case.entry, case.bytes);
    if let Outcome::Panic(p) = &out {
        l.count("outcome.panic");
        l.viol(case.viol("panic", "decode", "Ok or Err".into(), p.clone()));
        return;
    }
    l.count(if out.is_ok() { "outcome.accepted" } else { "outcome.rejected" });

    if checks.iff || checks.kind_dup || checks.kind_range || checks.kind_extraneous {
        let (verdict, item) = reference(case.ty, case.entry, case.bytes);
        match &verdict {
            Verdict::Accept(r) => {
                l.count("ref.must_accept");
                l.nontrivial(case.bytes);
                if checks.iff {
                    match &out {
                        Outcome::Ok(v) => compare_fields(case, v, r, l, "accept"),
                        Outcome::Err(e) => l.viol(case.viol("rejected-valid", &format!("{:?}", e), format!("accepted as {:?}", r), format!("Err({:?})", e))),
                        Outcome::Panic(_) => unreachable!(),
                    }
                }
            }
            Verdict::Reject { faults, clean } => {
                l.count("ref.must_reject");
                if faults.len() == 1 {
                    l.count(&format!("ref.single_fault.{}", faults[0].rule));
                    l.nontrivial(case.bytes);
                }
                match &out {
                    Outcome::Ok(v) => {
                        if checks.iff {
                            let only_undef = faults.iter().all(|f| f.kind == FaultKind::UndefinedForNil);
                            let folded = item.as_ref().map(|i| verdict_for(case.ty, case.entry, &i.fold_undefined()));
                            match (only_undef, folded) {
                                (true, Some(Verdict::Accept(r2))) => {
                                    // the subject behaves as if undefined were nil
                                    let before = l.viols.len();
                                    compare_fields(case, v, &r2, l, "undefined-folded");
                                    if l.viols.len() == before {
                                        let mut vi = case.viol("x", "x", "rejected (undefined is not nil)".into(), "accepted as if 0xf7 were 0xf6".into());
                                        vi.key = format!("{}:undefined-accepted-as-nil", case.pid);
                                        l.viol(vi);
                                    }
                                }
                                (true, Some(Verdict::Unspecified(_))) => l.count("ref.undefined_for_nil_in_unspecified_input"),
                                _ => l.viol(case.viol(
                                    "accepted-invalid",
                                    faults[0].rule,
                                    format!("rejected: {:?}", faults),
                                    format!("accepted as {}", v.debug()),
                                )),
                            }
                        }
                    }
                    Outcome::Err(e) => {
                        if *clean && faults.len() == 1 {
                            let pinned = match faults[0].kind {
                                FaultKind::Duplicate => checks.kind_dup,
                                FaultKind::OutOfRange => checks.kind_range,
                                FaultKind::Extraneous => checks.kind_extraneous,
                                _ => false,
                            };
                            if pinned {
                                l.count("ref.error_kind_pinned");
                                let want = expected_kind(faults[0].kind).unwrap();
                                if *e != want {
                                    l.viol(case.viol(
                                        "wrong-error",
                                        &format!("{:?}", faults[0].kind),
                                        format!("Err({:?}) for single fault {:?}", want, faults[0]),
                                        format!("Err({:?})", e),
                                    ));
                                }
                            }
                        }
                    }
                    Outcome::Panic(_) => unreachable!(),
                }
            }
            Verdict::Unspecified(why) => {
                l.count("ref.unspecified");
                for w in why {
                    l.count(&format!("ref.unspecified.{}", w));
                }
            }
        }
    }

    let v = match &out {
        Outcome::Ok(v) => v,
        _ => {
            if checks.layers {
                layers_reject(case, l);
            }
            return;
        }
    };

    if checks.followups {
        followups(case, v, l);
    }
    if checks.same_item {
        if let (ReadAll::One(e), Outcome::Ok(out)) = (read_all(case.bytes), v.to_vec()) {
            let it = e.item();
            if !it.has_bignum_tag() && !it.has_undefined() {
                l.count("same_item.compared");
                let ok = match read_exact(&out) {
                    Ok(o) => refcose::eq_mod_map_order(&o.item(), &it),
                    Err(_) => false,
                };
                if !ok {
                    l.viol(case.viol("readback", "content-changed", format!("re-encoding with the content {:?}", it), hex(&out)));
                }
            }
        }
    }
    if checks.fixed_point || checks.det_output {
        fixed_point(case, v, checks, l);
    }
    if checks.layers {
        layers_accept(case, v, l);
    }
    if checks.prefixes {
        for k in 0..case.bytes.len() {
            l.evaluations += 1;
            let o = subject_decode(case.ty, case.entry, &case.bytes[..k]);
            if !o.is_err() {
                l.viol(case.viol("prefix-accepted", &format!("cut={}", k), "Err".into(), o.brief()));
            }
        }
        l.add("prefixes_checked", case.bytes.len() as u64);
    }
    if checks.suffixes {
        let mut buf = case.bytes.to_vec();
        for s in suffix_alphabet() {
            buf.truncate(case.bytes.len());
            buf.extend_from_slice(&s);
            l.evaluations += 1;
            match subject_decode(case.ty, case.entry, &buf) {
                Outcome::Err(ErrKind::ExtraneousData) => {}
                o => l.viol(case.viol("suffix-not-extraneous", &hex(&s), "Err(ExtraneousData)".into(), o.brief())),
            }
        }
        l.add("suffixes_checked", suffix_alphabet().len() as u64);
    }
}

fn fixed_point(case: &Case, v: &BoxSubj, checks: &Checks, l: &mut Local) {
    let before = l.viols.len();
    fixed_point_inner(case, v, checks, l);
    if l.viols.len() > before {
        // one known root cause gets its own fingerprint: a bignum tag over an indefinite-length
        // byte string stays a tag on the first decode and becomes an integer on the second
        if let ReadAll::One(e) = read_all(case.bytes) {
            if e.has_bignum_over_indefinite() {
                for vi in l.viols[before..].iter_mut() {
                    vi.key = format!("{}:bignum-tag-over-indefinite-length-bstr", case.pid);
                }
            }
        }
    }
}

fn fixed_point_inner(case: &Case, v: &BoxSubj, checks: &Checks, l: &mut Local) {
    let d0 = v.debug();
    let b1 = match v.to_vec() {
        Outcome::Ok(b) => b,
        o => {
            l.viol(case.viol("fixed-point", "encode-failed", "to_vec Ok".into(), o.brief()));
            return;
        }
    };
    l.count("fixed_point.checked");
    if b1 != case.bytes {
        l.count("fixed_point.reencoding_differs_from_input");
        l.nontrivial(case.bytes);
    }
    // output is well-formed, definite-length CBOR
    match read_exact(&b1) {
        Ok(e) => {
            if !e.is_definite() {
                l.viol(case.viol("fixed-point", "output-indefinite", "definite-length output".into(), hex(&b1)));
            }
            if checks.det_output && !e.is_deterministic() {
                l.viol(case.viol("output-not-deterministic", "heads", "shortest heads".into(), hex(&b1)));
            }
        }
        Err(e) => {
            l.viol(case.viol("fixed-point", "output-not-cbor", "well-formed CBOR".into(), format!("{} ({})", e, hex(&b1))));
        }
    }
    if !checks.fixed_point {
        return;
    }
    // the re-encoding is decoded by the untagged entry point of the same type
    // (for the Bstr entry the value is a ProtectedHeader whose to_vec is the bare map)
    let v2 = match subject::decode(case.ty, &b1) {
        Outcome::Ok(v2) => v2,
        o => {
            l.viol(case.viol("fixed-point", "redecode-failed", format!("decode({}) Ok", hex(&b1)), o.brief()));
            return;
        }
    };
    let d2 = v2.debug();
    let same = if case.entry == Entry::Bstr {
        // from_cbor_bstr retains bytes, from_slice of the bare map does not: compare headers only
        strip_original(&d0) == strip_original(&d2)
    } else {
        d0 == d2
    };
    if !same {
        l.viol(case.viol("fixed-point", "value-changed", d0.clone(), d2));
    }
    match v2.to_vec() {
        Outcome::Ok(b2) if b2 == b1 => {}
        o => l.viol(case.viol("fixed-point", "second-encoding-differs", hex(&b1), match o {
            Outcome::Ok(b) => hex(&b),
            o => o.brief(),
        })),
    }
    if let Some(t) = v.to_tagged_vec() {
        match t {
            Outcome::Ok(tb) => {
                match subject::decode_tagged(case.ty, &tb) {
                    Outcome::Ok(v3) => {
                        if v3.debug() != d0 {
                            l.viol(case.viol("fixed-point", "tagged-value-changed", d0.clone(), v3.debug()));
                        }
                        match v3.to_tagged_vec() {
                            Some(Outcome::Ok(tb2)) if tb2 == tb => {}
                            _ => l.viol(case.viol("fixed-point", "tagged-second-encoding-differs", hex(&tb), "different".into())),
                        }
                    }
                    Outcome::Err(ErrKind::DecodeRecursion) => {
                        // the tag adds one level of nesting: a value that sits exactly at the CBOR
                        // parser's recursion limit untagged cannot be read back tagged
                        let mut vi = case.viol("fixed-point", "tagged-redecode-failed", "Ok".into(), "Err(DecodeRecursion)".into());
                        vi.key = format!("{}:tagged-form-one-level-beyond-parser-recursion-limit", case.pid);
                        l.viol(vi);
                    }
                    o => l.viol(case.viol("fixed-point", "tagged-redecode-failed", "Ok".into(), o.brief())),
                }
                l.count("fixed_point.tagged_checked");
            }
            o => l.viol(case.viol("fixed-point", "tagged-encode-failed", "Ok".into(), o.brief())),
        }
    }
    if let Ok(false) | Err(_) = v.clone_eq() {
        // NaN-carrying values are legitimately != themselves
        if !d0.contains("NaN") {
            l.viol(case.viol("fixed-point", "clone-not-equal", "clone == original".into(), "differs or panicked".into()));
        }
    }
}

fn strip_original(d: &str) -> String {
    // "ProtectedHeader { original_data: Some([..]), header: X }" -> X part
    match d.find(", header: ") {
        Some(i) if d.starts_with("ProtectedHeader") => d[i..].to_string(),
        _ => d.to_string(),
    }
}

fn layers_accept(case: &Case, v: &BoxSubj, l: &mut Local) {
    l.count("layers.checked_accept");
    // decode: from_slice(b) == from_cbor_value(parse(b))
    // (the bstr entry point *is* the value-level API applied to parse(b); only the encode
    // direction remains to be compared for it)
    if case.entry != Entry::Bstr {
        match subject::parse_value(case.bytes) {
            Outcome::Ok((val, used)) if used == case.bytes.len() => {
                let val = match case.entry {
                    Entry::Tagged => match val {
                        coset::cbor::value::Value::Tag(t, inner) if Some(t) == subject::registered_tag(case.ty) => *inner,
                        other => {
                            l.viol(case.viol("layers", "tagged-accept-without-tag", "Tag(TAG, ..)".into(), format!("{:?}", other)));
                            return;
                        }
                    },
                    _ => val,
                };
                match subject::decode_value(case.ty, val) {
                    Outcome::Ok(v2) => {
                        if v2.debug() != v.debug() {
                            l.viol(case.viol("layers", "decode-differs", v.debug(), v2.debug()));
                        }
                    }
                    o => l.viol(case.viol("layers", "value-api-rejects", "Ok".into(), o.brief())),
                }
            }
            o => l.viol(case.viol("layers", "parse-disagrees", "one complete item".into(), match o {
                Outcome::Ok((_, used)) => format!("item of {} bytes in input of {}", used, case.bytes.len()),
                o => o.brief(),
            })),
        }
    }
    // encode: to_vec(v) == serialise(to_cbor_value(v))
    match (v.to_vec(), v.to_value()) {
        (Outcome::Ok(b), Outcome::Ok(val)) => match subject::serialize_value(&val) {
            Outcome::Ok(b2) if b2 == b => {
                if let Some(Outcome::Ok(tb)) = v.to_tagged_vec() {
                    let tag = subject::registered_tag(case.ty).unwrap();
                    let tv = coset::cbor::value::Value::Tag(tag, Box::new(val));
                    match subject::serialize_value(&tv) {
                        Outcome::Ok(tb2) if tb2 == tb => {}
                        o => l.viol(case.viol("layers", "tagged-encode-differs", hex(&tb), o.brief())),
                    }
                }
            }
            o => l.viol(case.viol("layers", "encode-differs", hex(&b), match o {
                Outcome::Ok(b) => hex(&b),
                o => o.brief(),
            })),
        },
        (a, b) => {
            if a.is_ok() != b.is_ok() {
                l.viol(case.viol("layers", "encode-outcome-differs", a.brief(), b.brief()));
            }
        }
    }
}

fn layers_reject(case: &Case, l: &mut Local) {
    if case.entry == Entry::Bstr {
        return;
    }
    l.count("layers.checked_reject");
    // if the bytes parse as exactly one Value, the Value API must reject too
    if let Outcome::Ok((val, used)) = subject::parse_value(case.bytes) {
        if used == case.bytes.len() {
            let val = match case.entry {
                Entry::Tagged => match val {
                    coset::cbor::value::Value::Tag(t, inner) if Some(t) == subject::registered_tag(case.ty) => *inner,
                    _ => return,
                },
                _ => val,
            };
            let o = subject::decode_value(case.ty, val);
            if !o.is_err() {
                l.viol(case.viol("layers", "value-api-accepts", "Err".into(), o.brief()));
            }
        }
    }
}

/// C01 part 3: re-encode, clone, compare, Debug, drop and every crypto helper on an accepted value;
/// none may panic (documented panics are excluded by the crypto driver itself).
pub fn followups(case: &Case, v: &BoxSubj, l: &mut Local) {
    l.count("followups.values");
    let mut panic = |what: &str, p: String| {
        let mut vi = case.viol("panic", what, "no panic".into(), p);
        vi.key = format!("{}:panic-in-followup:{}:{}", case.pid, ty_name(case.ty), what);
        vi
    };
    if let Outcome::Panic(p) = v.to_vec() {
        let x = panic("to_vec", p);
        l.viol(x);
    }
    if let Some(Outcome::Panic(p)) = v.to_tagged_vec() {
        let x = panic("to_tagged_vec", p);
        l.viol(x);
    }
    if let Outcome::Panic(p) = v.to_value() {
        let x = panic("to_cbor_value", p);
        l.viol(x);
    }
    if let Err(p) = v.clone_eq() {
        let x = panic("clone-eq-drop", p);
        l.viol(x);
    }
    if let Err(p) = subject::catch(|| v.debug().len()) {
        let x = panic("Debug", p);
        l.viol(x);
    }
    let aad300 = vec![0xa5u8; 300];
    let aads: Vec<&[u8]> = vec![b"", b"x", &aad300];
    let detached: Vec<&[u8]> = vec![b"", b"y", &aad300];
    let casestr = format!("{} {} {}", ty_name(case.ty), case.entry.name(), hex(case.bytes));
    let cx = crate::spaces::crypto::Cx { pid: case.pid, space: case.space, case: &casestr, exact: false, fams: "", slots_only: false, body_override: None };
    if crate::spaces::crypto::on_any(&cx, v.as_any(), &aads, &detached, l) {
        l.count("followups.crypto_helpers");
    }
}
