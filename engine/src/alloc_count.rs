//! Counting global allocator: deterministic memory oracle for the C01 ladders.  Counting is off
//! unless a child process enables it, so the parallel explorers pay one relaxed load per call.

use std::alloc::{GlobalAlloc, Layout, System};
use std::sync::atomic::{AtomicBool, AtomicUsize, Ordering::Relaxed};

pub struct Counting;

static ENABLED: AtomicBool = AtomicBool::new(false);
static CURRENT: AtomicUsize = AtomicUsize::new(0);
static PEAK: AtomicUsize = AtomicUsize::new(0);
static TOTAL: AtomicUsize = AtomicUsize::new(0);

unsafe impl GlobalAlloc for Counting {
    unsafe fn alloc(&self, l: Layout) -> *mut u8 {
        let p = System.alloc(l);
        if !p.is_null() && ENABLED.load(Relaxed) {
            on_alloc(l.size());
        }
        p
    }
    unsafe fn dealloc(&self, p: *mut u8, l: Layout) {
        System.dealloc(p, l);
        if ENABLED.load(Relaxed) {
            CURRENT.fetch_sub(l.size().min(CURRENT.load(Relaxed)), Relaxed);
        }
    }
    unsafe fn realloc(&self, p: *mut u8, l: Layout, new: usize) -> *mut u8 {
        let q = System.realloc(p, l, new);
        if !q.is_null() && ENABLED.load(Relaxed) {
            if new > l.size() {
                on_alloc(new - l.size());
            } else {
                CURRENT.fetch_sub((l.size() - new).min(CURRENT.load(Relaxed)), Relaxed);
            }
        }
        q
    }
}

fn on_alloc(n: usize) {
    TOTAL.fetch_add(n, Relaxed);
    let c = CURRENT.fetch_add(n, Relaxed) + n;
    PEAK.fetch_max(c, Relaxed);
}

/// Start counting from zero.
pub fn start() {
    CURRENT.store(0, Relaxed);
    PEAK.store(0, Relaxed);
    TOTAL.store(0, Relaxed);
    ENABLED.store(true, Relaxed);
}

/// Stop counting; returns (peak live bytes, total allocated bytes) since `start`.
pub fn stop() -> (usize, usize) {
    ENABLED.store(false, Relaxed);
    (PEAK.load(Relaxed), TOTAL.load(Relaxed))
}
