//! Cross-check of the home-grown breadth-first explorer against stateright's BFS on the
//! HeaderBuilder model: both must find the same number of distinct states within the same depth.
//! Run at setup (`cosetmc xcheck`), not part of the per-change checks.

use crate::mc::{Report, Tier};
use crate::refcose::RHeader;
use crate::spaces::bfs::Step;
use crate::spaces::c19::{header_builder_search, header_ops, header_step, HOp};
use stateright::{Checker, Model, Property};

struct HeaderModel {
    ops: Vec<HOp>,
}

impl Model for HeaderModel {
    type State = RHeader;
    type Action = usize;
    fn init_states(&self) -> Vec<Self::State> {
        vec![RHeader::default()]
    }
    fn actions(&self, _s: &Self::State, actions: &mut Vec<Self::Action>) {
        actions.extend(0..self.ops.len());
    }
    fn next_state(&self, s: &Self::State, a: Self::Action) -> Option<Self::State> {
        match header_step(s, &self.ops[a]) {
            Step::Next(m) => Some(m),
            _ => None,
        }
    }
    fn properties(&self) -> Vec<Property<Self>> {
        vec![Property::always("never both IV and Partial IV", |_m, s: &RHeader| s.iv.is_empty() || s.partial_iv.is_empty())]
    }
}

pub fn run() -> i32 {
    let mut ok = true;
    for depth in [1usize, 2, 3] {
        let rep = Report::new("C19", Tier::Quick);
        let (mine, trans) = header_builder_search(&rep, "C19", depth, 10_000_000);
        let l = rep.take();
        // stateright counts the initial state at depth 1
        let checker = HeaderModel { ops: header_ops() }.checker().threads(1).target_max_depth(depth + 1).spawn_bfs().join();
        let theirs = checker.unique_state_count() as u64;
        println!("xcheck HeaderBuilder depth {}: cosetmc states={} transitions={} violations={} | stateright unique states={}", depth, mine, trans, l.viols.len(), theirs);
        if mine != theirs || !l.viols.is_empty() {
            ok = false;
        }
        if checker.discoveries().len() != 0 {
            println!("stateright found a counterexample to the model invariant");
            ok = false;
        }
    }
    if ok {
        println!("xcheck: explorers agree");
        0
    } else {
        println!("xcheck FAILED: state counts differ");
        2
    }
}
