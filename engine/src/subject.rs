//! The only module that touches coset: uniform access to every decoding / encoding entry point
//! under `catch_unwind`, construction of coset values from reference values, Item <-> Value.

use crate::refcbor::Item;
use crate::refcose::*;
use crate::refiana::Reg;
use coset::cbor::value::{Integer, Value};
use coset::iana::{self, EnumI64, WithPrivateRange};
use coset::{AsCborValue, CborSerializable, CoseError, TaggedCborSerializable};
use std::any::Any;
use std::cell::RefCell;
use std::fmt::Debug;
use std::panic::{catch_unwind, AssertUnwindSafe};

// ---------------------------------------------------------------------------------------------
// Panic capture

thread_local! {
    static LAST_PANIC: RefCell<Option<String>> = RefCell::new(None);
    static QUIET: RefCell<bool> = RefCell::new(false);
}

pub fn install_panic_hook() {
    let default = std::panic::take_hook();
    std::panic::set_hook(Box::new(move |info| {
        let msg = if let Some(s) = info.payload().downcast_ref::<&str>() {
            s.to_string()
        } else if let Some(s) = info.payload().downcast_ref::<String>() {
            s.clone()
        } else {
            "<non-string panic>".to_string()
        };
        let loc = info.location().map(|l| format!(" at {}:{}", l.file(), l.line())).unwrap_or_default();
        let quiet = QUIET.with(|q| *q.borrow());
        LAST_PANIC.with(|p| *p.borrow_mut() = Some(format!("{}{}", msg, loc)));
        if !quiet {
            default(info);
        }
    }));
}

/// Run `f` on the subject; a panic is returned as Err(message with location).
pub fn catch<T>(f: impl FnOnce() -> T) -> Result<T, String> {
    let was = QUIET.with(|q| std::mem::replace(&mut *q.borrow_mut(), true));
    let r = catch_unwind(AssertUnwindSafe(f));
    QUIET.with(|q| *q.borrow_mut() = was);
    match r {
        Ok(v) => Ok(v),
        Err(_) => Err(LAST_PANIC.with(|p| p.borrow_mut().take()).unwrap_or_else(|| "<panic>".into())),
    }
}

// ---------------------------------------------------------------------------------------------
// Outcomes

#[derive(Clone, Debug, PartialEq, Eq, Hash)]
pub enum ErrKind {
    DecodeIo,
    DecodeSyntax,
    DecodeSemantic,
    DecodeRecursion,
    DuplicateMapKey,
    EncodeFailed,
    ExtraneousData,
    OutOfRange,
    UnexpectedItem(String, String),
    UnregisteredIana,
    UnregisteredIanaNonPrivate,
}

pub fn classify(e: &CoseError) -> ErrKind {
    use coset::cbor::de::Error as DE;
    match e {
        CoseError::DecodeFailed(DE::Io(_)) => ErrKind::DecodeIo,
        CoseError::DecodeFailed(DE::Syntax(_)) => ErrKind::DecodeSyntax,
        CoseError::DecodeFailed(DE::Semantic(..)) => ErrKind::DecodeSemantic,
        CoseError::DecodeFailed(DE::RecursionLimitExceeded) => ErrKind::DecodeRecursion,
        CoseError::DuplicateMapKey => ErrKind::DuplicateMapKey,
        CoseError::EncodeFailed => ErrKind::EncodeFailed,
        CoseError::ExtraneousData => ErrKind::ExtraneousData,
        CoseError::OutOfRangeIntegerValue => ErrKind::OutOfRange,
        CoseError::UnexpectedItem(a, b) => ErrKind::UnexpectedItem(a.to_string(), b.to_string()),
        CoseError::UnregisteredIanaValue => ErrKind::UnregisteredIana,
        CoseError::UnregisteredIanaNonPrivateValue => ErrKind::UnregisteredIanaNonPrivate,
    }
}

#[derive(Clone, Debug, PartialEq, Eq)]
pub enum Outcome<T> {
    Ok(T),
    Err(ErrKind),
    Panic(String),
}

impl<T> Outcome<T> {
    pub fn is_ok(&self) -> bool {
        matches!(self, Outcome::Ok(_))
    }
    pub fn is_err(&self) -> bool {
        matches!(self, Outcome::Err(_))
    }
    pub fn is_panic(&self) -> bool {
        matches!(self, Outcome::Panic(_))
    }
    pub fn ok(self) -> Option<T> {
        match self {
            Outcome::Ok(v) => Some(v),
            _ => None,
        }
    }
    pub fn as_ref(&self) -> Outcome<&T> {
        match self {
            Outcome::Ok(v) => Outcome::Ok(v),
            Outcome::Err(e) => Outcome::Err(e.clone()),
            Outcome::Panic(p) => Outcome::Panic(p.clone()),
        }
    }
    pub fn map<U>(self, f: impl FnOnce(T) -> U) -> Outcome<U> {
        match self {
            Outcome::Ok(v) => Outcome::Ok(f(v)),
            Outcome::Err(e) => Outcome::Err(e),
            Outcome::Panic(p) => Outcome::Panic(p),
        }
    }
    pub fn brief(&self) -> String {
        match self {
            Outcome::Ok(_) => "Ok".into(),
            Outcome::Err(e) => format!("Err({:?})", e),
            Outcome::Panic(p) => format!("PANIC({})", p),
        }
    }
}

pub fn run<T>(f: impl FnOnce() -> Result<T, CoseError>) -> Outcome<T> {
    match catch(f) {
        Ok(Ok(v)) => Outcome::Ok(v),
        Ok(Err(e)) => Outcome::Err(classify(&e)),
        Err(p) => Outcome::Panic(p),
    }
}

pub fn dec<T: CborSerializable>(b: &[u8]) -> Outcome<T> {
    run(|| T::from_slice(b))
}
pub fn dec_tagged<T: TaggedCborSerializable>(b: &[u8]) -> Outcome<T> {
    run(|| T::from_tagged_slice(b))
}
pub fn enc<T: CborSerializable + Clone>(v: &T) -> Outcome<Vec<u8>> {
    run(|| v.clone().to_vec())
}
pub fn enc_tagged<T: TaggedCborSerializable + Clone>(v: &T) -> Outcome<Vec<u8>> {
    run(|| v.clone().to_tagged_vec())
}

// ---------------------------------------------------------------------------------------------
// Item <-> Value

pub fn int_value(v: i128) -> Value {
    Value::Integer(Integer::try_from(v).expect("integer outside CBOR range"))
}

/// Lossy exactly where ciborium's data model is: `undefined` becomes Null.  Unassigned simple
/// values have no Value at all and must not be passed.
pub fn item_to_value(i: &Item) -> Value {
    match i {
        Item::UInt(v) => int_value(*v as i128),
        Item::NInt(n) => int_value(-1 - (*n as i128)),
        Item::Bytes(b) => Value::Bytes(b.clone()),
        Item::Text(t) => Value::Text(t.clone()),
        Item::Array(a) => Value::Array(a.iter().map(item_to_value).collect()),
        Item::Map(m) => Value::Map(m.iter().map(|(k, v)| (item_to_value(k), item_to_value(v))).collect()),
        Item::Tag(t, i) => Value::Tag(*t, Box::new(item_to_value(i))),
        Item::Simple(20) => Value::Bool(false),
        Item::Simple(21) => Value::Bool(true),
        Item::Simple(22) | Item::Simple(23) => Value::Null,
        Item::Simple(s) => panic!("no Value for simple({})", s),
        Item::Float(b) => Value::Float(f64::from_bits(*b)),
    }
}

pub fn value_to_item(v: &Value) -> Item {
    match v {
        Value::Integer(i) => Item::int(i128::from(*i)),
        Value::Bytes(b) => Item::Bytes(b.clone()),
        Value::Text(t) => Item::Text(t.clone()),
        Value::Array(a) => Item::Array(a.iter().map(value_to_item).collect()),
        Value::Map(m) => Item::Map(m.iter().map(|(k, v)| (value_to_item(k), value_to_item(v))).collect()),
        Value::Tag(t, i) => Item::Tag(*t, Box::new(value_to_item(i))),
        Value::Bool(false) => Item::Simple(20),
        Value::Bool(true) => Item::Simple(21),
        Value::Null => Item::Simple(22),
        Value::Float(f) => Item::float(*f),
        _ => panic!("unknown Value variant"),
    }
}

// ---------------------------------------------------------------------------------------------
// Construction of coset values from reference values

pub type CResult<T> = Result<T, String>;

pub fn c_label(l: &RLabel) -> coset::Label {
    match l {
        RLabel::Int(i) => coset::Label::Int(*i),
        RLabel::Text(t) => coset::Label::Text(t.clone()),
    }
}

pub fn c_reg<T: EnumI64>(l: &RLabel) -> CResult<coset::RegisteredLabel<T>> {
    match l {
        RLabel::Int(i) => T::from_i64(*i)
            .map(coset::RegisteredLabel::Assigned)
            .ok_or_else(|| format!("from_i64({}) is None for a value the registry snapshot lists", i)),
        RLabel::Text(t) => Ok(coset::RegisteredLabel::Text(t.clone())),
    }
}

pub fn c_regp<T: EnumI64 + WithPrivateRange>(l: &RLabel) -> CResult<coset::RegisteredLabelWithPrivate<T>> {
    match l {
        RLabel::Int(i) => match T::from_i64(*i) {
            Some(a) => Ok(coset::RegisteredLabelWithPrivate::Assigned(a)),
            None => Ok(coset::RegisteredLabelWithPrivate::PrivateUse(*i)),
        },
        RLabel::Text(t) => Ok(coset::RegisteredLabelWithPrivate::Text(t.clone())),
    }
}

pub fn c_header(h: &RHeader) -> CResult<coset::Header> {
    Ok(coset::Header {
        alg: match &h.alg {
            Some(a) => Some(c_regp::<iana::Algorithm>(a)?),
            None => None,
        },
        crit: h.crit.iter().map(c_reg::<iana::HeaderParameter>).collect::<CResult<Vec<_>>>()?,
        content_type: match &h.content_type {
            Some(a) => Some(c_reg::<iana::CoapContentFormat>(a)?),
            None => None,
        },
        key_id: h.key_id.clone(),
        iv: h.iv.clone(),
        partial_iv: h.partial_iv.clone(),
        counter_signatures: h.counter_signatures.iter().map(c_signature).collect::<CResult<Vec<_>>>()?,
        rest: h.rest.iter().map(|(l, v)| (c_label(l), item_to_value(v))).collect(),
        ..Default::default()
    })
}

pub fn c_protected(p: &RProtected) -> CResult<coset::ProtectedHeader> {
    Ok(coset::ProtectedHeader { original_data: p.original.clone(), header: c_header(&p.header)?, ..Default::default() })
}

pub fn c_signature(s: &RSignature) -> CResult<coset::CoseSignature> {
    Ok(coset::CoseSignature {
        protected: c_protected(&s.protected)?,
        unprotected: c_header(&s.unprotected)?,
        signature: s.signature.clone(),
        ..Default::default()
    })
}

pub fn c_recipient(r: &RRecipient) -> CResult<coset::CoseRecipient> {
    Ok(coset::CoseRecipient {
        protected: c_protected(&r.protected)?,
        unprotected: c_header(&r.unprotected)?,
        ciphertext: r.ciphertext.clone(),
        recipients: r.recipients.iter().map(c_recipient).collect::<CResult<Vec<_>>>()?,
        ..Default::default()
    })
}

pub fn c_sign(s: &RSign) -> CResult<coset::CoseSign> {
    Ok(coset::CoseSign {
        protected: c_protected(&s.protected)?,
        unprotected: c_header(&s.unprotected)?,
        payload: s.payload.clone(),
        signatures: s.signatures.iter().map(c_signature).collect::<CResult<Vec<_>>>()?,
        ..Default::default()
    })
}

pub fn c_sign1(s: &RSign1) -> CResult<coset::CoseSign1> {
    Ok(coset::CoseSign1 {
        protected: c_protected(&s.protected)?,
        unprotected: c_header(&s.unprotected)?,
        payload: s.payload.clone(),
        signature: s.signature.clone(),
        ..Default::default()
    })
}

pub fn c_mac(s: &RMac) -> CResult<coset::CoseMac> {
    Ok(coset::CoseMac {
        protected: c_protected(&s.protected)?,
        unprotected: c_header(&s.unprotected)?,
        payload: s.payload.clone(),
        tag: s.tag.clone(),
        recipients: s.recipients.iter().map(c_recipient).collect::<CResult<Vec<_>>>()?,
        ..Default::default()
    })
}

pub fn c_mac0(s: &RMac0) -> CResult<coset::CoseMac0> {
    Ok(coset::CoseMac0 {
        protected: c_protected(&s.protected)?,
        unprotected: c_header(&s.unprotected)?,
        payload: s.payload.clone(),
        tag: s.tag.clone(),
        ..Default::default()
    })
}

pub fn c_encrypt(s: &REncrypt) -> CResult<coset::CoseEncrypt> {
    Ok(coset::CoseEncrypt {
        protected: c_protected(&s.protected)?,
        unprotected: c_header(&s.unprotected)?,
        ciphertext: s.ciphertext.clone(),
        recipients: s.recipients.iter().map(c_recipient).collect::<CResult<Vec<_>>>()?,
        ..Default::default()
    })
}

pub fn c_encrypt0(s: &REncrypt0) -> CResult<coset::CoseEncrypt0> {
    Ok(coset::CoseEncrypt0 {
        protected: c_protected(&s.protected)?,
        unprotected: c_header(&s.unprotected)?,
        ciphertext: s.ciphertext.clone(),
        ..Default::default()
    })
}

pub fn c_key(k: &RKey) -> CResult<coset::CoseKey> {
    Ok(coset::CoseKey {
        kty: c_reg::<iana::KeyType>(&k.kty)?,
        key_id: k.key_id.clone(),
        alg: match &k.alg {
            Some(a) => Some(c_regp::<iana::Algorithm>(a)?),
            None => None,
        },
        key_ops: k.key_ops.iter().map(c_reg::<iana::KeyOperation>).collect::<CResult<_>>()?,
        base_iv: k.base_iv.clone(),
        params: k.params.iter().map(|(l, v)| (c_label(l), item_to_value(v))).collect(),
        ..Default::default()
    })
}

pub fn c_time(t: &RTime) -> coset::cwt::Timestamp {
    match t {
        RTime::Whole(i) => coset::cwt::Timestamp::WholeSeconds(*i),
        RTime::Frac(b) => coset::cwt::Timestamp::FractionalSeconds(f64::from_bits(*b)),
    }
}

pub fn c_claims(c: &RClaims) -> CResult<coset::cwt::ClaimsSet> {
    Ok(coset::cwt::ClaimsSet {
        issuer: c.iss.clone(),
        subject: c.sub.clone(),
        audience: c.aud.clone(),
        expiration_time: c.exp.as_ref().map(c_time),
        not_before: c.nbf.as_ref().map(c_time),
        issued_at: c.iat.as_ref().map(c_time),
        cwt_id: c.cti.clone(),
        rest: c
            .rest
            .iter()
            .map(|(l, v)| Ok((c_regp::<iana::CwtClaimName>(l)?, item_to_value(v))))
            .collect::<CResult<Vec<_>>>()?,
        ..Default::default()
    })
}

pub fn c_party(p: &RParty) -> coset::PartyInfo {
    coset::PartyInfo {
        identity: p.identity.clone(),
        nonce: p.nonce.as_ref().map(|n| match n {
            RNonce::Bytes(b) => coset::Nonce::Bytes(b.clone()),
            RNonce::Int(i) => coset::Nonce::Integer(*i),
        }),
        other: p.other.clone(),
        ..Default::default()
    }
}

pub fn c_supp_pub(s: &RSuppPub) -> CResult<coset::SuppPubInfo> {
    Ok(coset::SuppPubInfo {
        key_data_length: s.key_data_length,
        protected: c_protected(&s.protected)?,
        other: s.other.clone(),
        ..Default::default()
    })
}

/// A KDF context has private fields; it can only be made by the builder, which takes a registered
/// algorithm.  For other algorithm identifiers None is returned (callers fall back to comparing
/// the re-encoding).
pub fn c_kdf(k: &RKdf) -> CResult<Option<coset::CoseKdfContext>> {
    let alg = match &k.alg {
        RLabel::Int(i) => match iana::Algorithm::from_i64(*i) {
            Some(a) => a,
            None => return Ok(None),
        },
        RLabel::Text(_) => return Ok(None),
    };
    let mut b = coset::CoseKdfContextBuilder::new()
        .algorithm(alg)
        .party_u_info(c_party(&k.u))
        .party_v_info(c_party(&k.v))
        .supp_pub_info(c_supp_pub(&k.supp_pub)?);
    for s in &k.supp_priv {
        b = b.add_supp_priv_info(s.clone());
    }
    Ok(Some(b.build()))
}

// ---------------------------------------------------------------------------------------------
// Dynamic layer over all types

/// Timestamp has no byte-level API of its own; give it one through the public traits.
#[derive(Clone, Debug, PartialEq)]
pub struct Ts(pub coset::cwt::Timestamp);
impl AsCborValue for Ts {
    fn from_cbor_value(value: Value) -> coset::Result<Self> {
        Ok(Ts(coset::cwt::Timestamp::from_cbor_value(value)?))
    }
    fn to_cbor_value(self) -> coset::Result<Value> {
        self.0.to_cbor_value()
    }
}
impl CborSerializable for Ts {}

pub trait MaybeTagged: Sized {
    fn from_tagged(_b: &[u8]) -> Option<coset::Result<Self>> {
        None
    }
    fn tagged_vec(self) -> Option<coset::Result<Vec<u8>>> {
        None
    }
    fn tag() -> Option<u64> {
        None
    }
    /// The type's `Default` value where it has one (destination for `clone_from`).
    fn fresh() -> Option<Self> {
        None
    }
}
macro_rules! tagged {
    ($($t:ty),*) => {$(
        impl MaybeTagged for $t {
            fn from_tagged(b: &[u8]) -> Option<coset::Result<Self>> { Some(<$t>::from_tagged_slice(b)) }
            fn tagged_vec(self) -> Option<coset::Result<Vec<u8>>> { Some(self.to_tagged_vec()) }
            fn tag() -> Option<u64> { Some(<$t as TaggedCborSerializable>::TAG) }
            fn fresh() -> Option<Self> { Some(Default::default()) }
        }
    )*};
}
macro_rules! untagged {
    ($($t:ty),*) => {$( impl MaybeTagged for $t {} )*};
}
macro_rules! untagged_default {
    ($($t:ty),*) => {$( impl MaybeTagged for $t { fn fresh() -> Option<Self> { Some(Default::default()) } } )*};
}
tagged!(coset::CoseSign, coset::CoseSign1, coset::CoseMac, coset::CoseMac0, coset::CoseEncrypt, coset::CoseEncrypt0);
untagged_default!(
    coset::Header,
    coset::ProtectedHeader,
    coset::CoseSignature,
    coset::CoseRecipient,
    coset::CoseKey,
    coset::CoseKeySet,
    coset::cwt::ClaimsSet,
    coset::PartyInfo,
    coset::SuppPubInfo,
    coset::CoseKdfContext
);
untagged!(coset::Label, Ts);
impl<T: EnumI64> MaybeTagged for coset::RegisteredLabel<T> {}
impl<T: EnumI64 + WithPrivateRange> MaybeTagged for coset::RegisteredLabelWithPrivate<T> {}

pub trait Subj: Any {
    fn debug(&self) -> String;
    fn to_vec(&self) -> Outcome<Vec<u8>>;
    fn to_tagged_vec(&self) -> Option<Outcome<Vec<u8>>>;
    fn to_value(&self) -> Outcome<Value>;
    /// clone (and clone_from into a Default value), compare with ==, Debug and encoding, drop the
    /// copies: nothing may panic; returns whether every copy is indistinguishable from self
    fn clone_eq(&self) -> Result<bool, String>;
    fn as_any(&self) -> &dyn Any;
    /// `self == other` when `other` holds the same type (None otherwise); Err on panic
    fn eq_dyn(&self, other: &dyn Subj) -> Option<Result<bool, String>>;
}

pub struct Holder<T>(pub T);

impl<T> Subj for Holder<T>
where
    T: CborSerializable + MaybeTagged + Clone + Debug + PartialEq + 'static,
{
    fn debug(&self) -> String {
        format!("{:?}", self.0)
    }
    fn to_vec(&self) -> Outcome<Vec<u8>> {
        run(|| self.0.clone().to_vec())
    }
    fn to_tagged_vec(&self) -> Option<Outcome<Vec<u8>>> {
        T::tag()?;
        Some(run(|| self.0.clone().tagged_vec().unwrap()))
    }
    fn to_value(&self) -> Outcome<Value> {
        run(|| self.0.clone().to_cbor_value())
    }
    fn clone_eq(&self) -> Result<bool, String> {
        catch(|| {
            let c = self.0.clone();
            let mut r = c == self.0;
            drop(c);
            // `clone_from` into a fresh (built, not decoded) destination is a copy as well
            if let Some(mut d) = T::fresh() {
                d.clone_from(&self.0);
                r &= d == self.0
                    && format!("{:?}", d) == format!("{:?}", self.0)
                    && d.to_vec().ok() == self.0.clone().to_vec().ok();
            }
            r
        })
    }
    fn as_any(&self) -> &dyn Any {
        &self.0
    }
    fn eq_dyn(&self, other: &dyn Subj) -> Option<Result<bool, String>> {
        let o = other.as_any().downcast_ref::<T>()?;
        Some(catch(|| self.0 == *o))
    }
}

pub type BoxSubj = Box<dyn Subj>;

fn hold<T>(o: Outcome<T>) -> Outcome<BoxSubj>
where
    T: CborSerializable + MaybeTagged + Clone + Debug + PartialEq + 'static,
{
    o.map(|v| Box::new(Holder(v)) as BoxSubj)
}

/// Expand `$body` with `$T` bound to the coset type for a reference type id.
macro_rules! with_type {
    ($ty:expr, $T:ident => $body:expr) => {{
        use crate::refcose::Ty as Y;
        use crate::refiana::Reg as R;
        match $ty {
            Y::Header => { type $T = coset::Header; $body }
            Y::Protected => { type $T = coset::ProtectedHeader; $body }
            Y::Signature => { type $T = coset::CoseSignature; $body }
            Y::Sign => { type $T = coset::CoseSign; $body }
            Y::Sign1 => { type $T = coset::CoseSign1; $body }
            Y::Mac => { type $T = coset::CoseMac; $body }
            Y::Mac0 => { type $T = coset::CoseMac0; $body }
            Y::Encrypt => { type $T = coset::CoseEncrypt; $body }
            Y::Encrypt0 => { type $T = coset::CoseEncrypt0; $body }
            Y::Recipient => { type $T = coset::CoseRecipient; $body }
            Y::Key => { type $T = coset::CoseKey; $body }
            Y::KeySet => { type $T = coset::CoseKeySet; $body }
            Y::Claims => { type $T = coset::cwt::ClaimsSet; $body }
            Y::Party => { type $T = coset::PartyInfo; $body }
            Y::SuppPub => { type $T = coset::SuppPubInfo; $body }
            Y::Kdf => { type $T = coset::CoseKdfContext; $body }
            Y::Label => { type $T = coset::Label; $body }
            Y::Timestamp => { type $T = crate::subject::Ts; $body }
            Y::RegLabel(rt) => match (rt.reg, rt.with_private) {
                (R::Algorithm, true) => { type $T = coset::RegisteredLabelWithPrivate<coset::iana::Algorithm>; $body }
                (R::HeaderParameter, true) => { type $T = coset::RegisteredLabelWithPrivate<coset::iana::HeaderParameter>; $body }
                (R::EllipticCurve, true) => { type $T = coset::RegisteredLabelWithPrivate<coset::iana::EllipticCurve>; $body }
                (R::CwtClaimName, true) => { type $T = coset::RegisteredLabelWithPrivate<coset::iana::CwtClaimName>; $body }
                (R::HeaderParameter, false) => { type $T = coset::RegisteredLabel<coset::iana::HeaderParameter>; $body }
                (R::CoapContentFormat, false) => { type $T = coset::RegisteredLabel<coset::iana::CoapContentFormat>; $body }
                (R::KeyType, false) => { type $T = coset::RegisteredLabel<coset::iana::KeyType>; $body }
                (R::KeyOperation, false) => { type $T = coset::RegisteredLabel<coset::iana::KeyOperation>; $body }
                (R::Algorithm, false) => { type $T = coset::RegisteredLabel<coset::iana::Algorithm>; $body }
                (R::KeyParameter, false) => { type $T = coset::RegisteredLabel<coset::iana::KeyParameter>; $body }
                (R::CborTag, false) => { type $T = coset::RegisteredLabel<coset::iana::CborTag>; $body }
                (R::Ec2KeyParameter, false) => { type $T = coset::RegisteredLabel<coset::iana::Ec2KeyParameter>; $body }
                (r, p) => panic!("no coset type bound for registry label {:?} private={}", r, p),
            },
        }
    }};
}

/// Byte-level untagged decoding entry point of `ty`.
pub fn decode(ty: Ty, b: &[u8]) -> Outcome<BoxSubj> {
    with_type!(ty, T => hold(dec::<T>(b)))
}

/// Byte-level tagged decoding entry point (taggable types only).
pub fn decode_tagged(ty: Ty, b: &[u8]) -> Outcome<BoxSubj> {
    with_type!(ty, T => hold(run(|| <T as MaybeTagged>::from_tagged(b).expect("type is not taggable"))))
}

/// Value-level decoding entry point.
pub fn decode_value(ty: Ty, v: Value) -> Outcome<BoxSubj> {
    with_type!(ty, T => hold(run(|| <T as AsCborValue>::from_cbor_value(v))))
}

/// `ProtectedHeader::from_cbor_bstr` on an arbitrary Value.
pub fn decode_protected_bstr(v: Value) -> Outcome<BoxSubj> {
    hold(run(|| coset::ProtectedHeader::from_cbor_bstr(v)))
}

pub fn registered_tag(ty: Ty) -> Option<u64> {
    with_type!(ty, T => <T as MaybeTagged>::tag())
}

/// Build the coset value for a reference value.  Ok(None) only for KDF contexts whose algorithm
/// the builder cannot express.
pub fn construct(v: &RVal) -> CResult<Option<BoxSubj>> {
    fn b<T>(v: T) -> Option<BoxSubj>
    where
        T: CborSerializable + MaybeTagged + Clone + Debug + PartialEq + 'static,
    {
        Some(Box::new(Holder(v)) as BoxSubj)
    }
    Ok(match v {
        RVal::Header(h) => b(c_header(h)?),
        RVal::Protected(p) => b(c_protected(p)?),
        RVal::Signature(s) => b(c_signature(s)?),
        RVal::Sign(s) => b(c_sign(s)?),
        RVal::Sign1(s) => b(c_sign1(s)?),
        RVal::Mac(s) => b(c_mac(s)?),
        RVal::Mac0(s) => b(c_mac0(s)?),
        RVal::Encrypt(s) => b(c_encrypt(s)?),
        RVal::Encrypt0(s) => b(c_encrypt0(s)?),
        RVal::Recipient(s) => b(c_recipient(s)?),
        RVal::Key(k) => b(c_key(k)?),
        RVal::KeySet(ks) => b(coset::CoseKeySet(ks.iter().map(c_key).collect::<CResult<Vec<_>>>()?)),
        RVal::Claims(c) => b(c_claims(c)?),
        RVal::Party(p) => b(c_party(p)),
        RVal::SuppPub(s) => b(c_supp_pub(s)?),
        RVal::Kdf(k) => c_kdf(k)?.and_then(b),
        RVal::Label(l) => b(c_label(l)),
        RVal::Timestamp(t) => b(Ts(c_time(t))),
        RVal::RegLabel(rt, l) => {
            use iana::*;
            match (rt.reg, rt.with_private) {
                (Reg::Algorithm, true) => b(c_regp::<Algorithm>(l)?),
                (Reg::HeaderParameter, true) => b(c_regp::<HeaderParameter>(l)?),
                (Reg::EllipticCurve, true) => b(c_regp::<EllipticCurve>(l)?),
                (Reg::CwtClaimName, true) => b(c_regp::<CwtClaimName>(l)?),
                (Reg::HeaderParameter, false) => b(c_reg::<HeaderParameter>(l)?),
                (Reg::CoapContentFormat, false) => b(c_reg::<CoapContentFormat>(l)?),
                (Reg::KeyType, false) => b(c_reg::<KeyType>(l)?),
                (Reg::KeyOperation, false) => b(c_reg::<KeyOperation>(l)?),
                (Reg::Algorithm, false) => b(c_reg::<Algorithm>(l)?),
                (Reg::KeyParameter, false) => b(c_reg::<KeyParameter>(l)?),
                (Reg::CborTag, false) => b(c_reg::<CborTag>(l)?),
                (Reg::Ec2KeyParameter, false) => b(c_reg::<Ec2KeyParameter>(l)?),
                (r, p) => return Err(format!("no coset type bound for registry label {:?} private={}", r, p)),
            }
        }
    })
}

/// Parse bytes into a ciborium Value with the crate's own re-exported parser (C13: "CBOR-parsing
/// the bytes").  Trailing data is reported separately.
pub fn parse_value(b: &[u8]) -> Outcome<(Value, usize)> {
    match catch(|| {
        let mut s: &[u8] = b;
        let r: Result<Value, coset::cbor::de::Error<_>> = coset::cbor::de::from_reader(&mut s);
        r.map(|v| (v, b.len() - s.len()))
    }) {
        Ok(Ok(v)) => Outcome::Ok(v),
        Ok(Err(e)) => Outcome::Err(classify(&CoseError::from(e))),
        Err(p) => Outcome::Panic(p),
    }
}

pub fn serialize_value(v: &Value) -> Outcome<Vec<u8>> {
    match catch(|| {
        let mut out = Vec::new();
        coset::cbor::ser::into_writer(v, &mut out).map(|_| out)
    }) {
        Ok(Ok(v)) => Outcome::Ok(v),
        Ok(Err(_)) => Outcome::Err(ErrKind::EncodeFailed),
        Err(p) => Outcome::Panic(p),
    }
}
