//! Independent CBOR reference (RFC 8949): data-model items, concrete encodings with
//! controllable style, a strict reader and a writer.  Shares no code with ciborium or coset.

use std::fmt;

/// CBOR generic data-model value.  Floats are kept by their f64 bit pattern with all NaNs
/// normalised to one pattern (the properties compare floats "up to NaN payload").
#[derive(Clone, PartialEq, Eq, Hash, PartialOrd, Ord)]
pub enum Item {
    UInt(u64),
    /// value = -1 - n
    NInt(u64),
    Bytes(Vec<u8>),
    Text(String),
    Array(Vec<Item>),
    Map(Vec<(Item, Item)>),
    Tag(u64, Box<Item>),
    /// 20 false, 21 true, 22 null, 23 undefined; others are unassigned simple values
    Simple(u8),
    Float(u64),
}

pub const FALSE: Item = Item::Simple(20);
pub const TRUE: Item = Item::Simple(21);
pub const NULL: Item = Item::Simple(22);
pub const UNDEFINED: Item = Item::Simple(23);

pub fn norm_f64_bits(bits: u64) -> u64 {
    if f64::from_bits(bits).is_nan() {
        0x7ff8_0000_0000_0000
    } else {
        bits
    }
}

impl Item {
    pub fn int(v: i128) -> Item {
        if v >= 0 {
            Item::UInt(u64::try_from(v).expect("int out of CBOR range"))
        } else {
            Item::NInt(u64::try_from(-1 - v).expect("int out of CBOR range"))
        }
    }
    pub fn as_int(&self) -> Option<i128> {
        match self {
            Item::UInt(v) => Some(*v as i128),
            Item::NInt(n) => Some(-1 - (*n as i128)),
            _ => None,
        }
    }
    pub fn float(f: f64) -> Item {
        Item::Float(norm_f64_bits(f.to_bits()))
    }
    pub fn text(s: &str) -> Item {
        Item::Text(s.to_string())
    }
    pub fn bytes(b: &[u8]) -> Item {
        Item::Bytes(b.to_vec())
    }
    pub fn tag(t: u64, i: Item) -> Item {
        Item::Tag(t, Box::new(i))
    }
    pub fn is_bytes(&self) -> bool {
        matches!(self, Item::Bytes(_))
    }
    pub fn is_array(&self) -> bool {
        matches!(self, Item::Array(_))
    }
    /// Deterministic encoding (definite lengths, shortest heads, shortest exact float).
    pub fn det(&self) -> Vec<u8> {
        Enc::canonical(self).to_bytes()
    }
    /// Replace every `undefined` by `null` (what a parser that folds the two would see).
    pub fn fold_undefined(&self) -> Item {
        match self {
            Item::Simple(23) => NULL,
            Item::Array(a) => Item::Array(a.iter().map(|x| x.fold_undefined()).collect()),
            Item::Map(m) => Item::Map(
                m.iter()
                    .map(|(k, v)| (k.fold_undefined(), v.fold_undefined()))
                    .collect(),
            ),
            Item::Tag(t, i) => Item::Tag(*t, Box::new(i.fold_undefined())),
            x => x.clone(),
        }
    }
    pub fn contains(&self, pred: &dyn Fn(&Item) -> bool) -> bool {
        if pred(self) {
            return true;
        }
        match self {
            Item::Array(a) => a.iter().any(|x| x.contains(pred)),
            Item::Map(m) => m.iter().any(|(k, v)| k.contains(pred) || v.contains(pred)),
            Item::Tag(_, i) => i.contains(pred),
            _ => false,
        }
    }
    /// Does the item contain something the subject's CBOR layer cannot represent faithfully:
    /// `undefined` (folded into null) or an unassigned simple value (rejected)?
    pub fn has_undefined(&self) -> bool {
        self.contains(&|i| matches!(i, Item::Simple(23)))
    }
    pub fn has_unassigned_simple(&self) -> bool {
        self.contains(&|i| matches!(i, Item::Simple(s) if !(20..=23).contains(s)))
    }
    /// Bignum tags (2, 3) over a byte string: the subject's parser folds those into integers.
    pub fn has_bignum_tag(&self) -> bool {
        self.contains(&|i| matches!(i, Item::Tag(2 | 3, b) if b.is_bytes()))
    }
    pub fn depth(&self) -> usize {
        match self {
            Item::Array(a) => 1 + a.iter().map(|x| x.depth()).max().unwrap_or(0),
            Item::Map(m) => {
                1 + m
                    .iter()
                    .map(|(k, v)| k.depth().max(v.depth()))
                    .max()
                    .unwrap_or(0)
            }
            Item::Tag(_, i) => 1 + i.depth(),
            _ => 0,
        }
    }
}

pub fn hex(b: &[u8]) -> String {
    let mut s = String::with_capacity(b.len() * 2);
    for x in b {
        s.push_str(&format!("{:02x}", x));
    }
    s
}

pub fn unhex(s: &str) -> Option<Vec<u8>> {
    let s: Vec<u8> = s.bytes().filter(|c| !c.is_ascii_whitespace()).collect();
    if s.len() % 2 != 0 {
        return None;
    }
    let mut out = Vec::with_capacity(s.len() / 2);
    for p in s.chunks(2) {
        let h = (p[0] as char).to_digit(16)?;
        let l = (p[1] as char).to_digit(16)?;
        out.push((h * 16 + l) as u8);
    }
    Some(out)
}

/// Diagnostic notation (roughly RFC 8949 section 8).
impl fmt::Debug for Item {
    fn fmt(&self, f: &mut fmt::Formatter<'_>) -> fmt::Result {
        match self {
            Item::UInt(v) => write!(f, "{}", v),
            Item::NInt(n) => write!(f, "{}", -1 - (*n as i128)),
            Item::Bytes(b) => {
                if b.len() > 40 {
                    write!(f, "h'{}..({} bytes)'", hex(&b[..8]), b.len())
                } else {
                    write!(f, "h'{}'", hex(b))
                }
            }
            Item::Text(t) => {
                if t.len() > 40 {
                    write!(f, "\"{}..\"({} bytes)", &t[..t.char_indices().nth(8).map(|x| x.0).unwrap_or(0)], t.len())
                } else {
                    write!(f, "{:?}", t)
                }
            }
            Item::Array(a) => {
                write!(f, "[")?;
                for (i, x) in a.iter().enumerate() {
                    if i > 0 {
                        write!(f, ", ")?;
                    }
                    write!(f, "{:?}", x)?;
                }
                write!(f, "]")
            }
            Item::Map(m) => {
                write!(f, "{{")?;
                for (i, (k, v)) in m.iter().enumerate() {
                    if i > 0 {
                        write!(f, ", ")?;
                    }
                    write!(f, "{:?}: {:?}", k, v)?;
                }
                write!(f, "}}")
            }
            Item::Tag(t, i) => write!(f, "{}({:?})", t, i),
            Item::Simple(20) => write!(f, "false"),
            Item::Simple(21) => write!(f, "true"),
            Item::Simple(22) => write!(f, "null"),
            Item::Simple(23) => write!(f, "undefined"),
            Item::Simple(s) => write!(f, "simple({})", s),
            Item::Float(b) => write!(f, "{:?}_f", f64::from_bits(*b)),
        }
    }
}

// ---------------------------------------------------------------------------------------------
// Concrete encodings

/// Width of a head argument: 0 = inside the initial byte, else 1, 2, 4 or 8 following bytes.
pub type W = u8;

pub fn min_w(v: u64) -> W {
    if v < 24 {
        0
    } else if v <= 0xff {
        1
    } else if v <= 0xffff {
        2
    } else if v <= 0xffff_ffff {
        4
    } else {
        8
    }
}

pub fn wider(w: W) -> &'static [W] {
    match w {
        0 => &[1, 2, 4, 8],
        1 => &[2, 4, 8],
        2 => &[4, 8],
        4 => &[8],
        _ => &[],
    }
}

/// Concrete syntax tree of one encoded CBOR item: the data plus every encoding choice.
#[derive(Clone, Debug, PartialEq, Eq, Hash)]
pub enum Enc {
    UInt(u64, W),
    NInt(u64, W),
    Bytes(Vec<u8>, W),
    BytesIndef(Vec<(Vec<u8>, W)>),
    Text(String, W),
    TextIndef(Vec<(String, W)>),
    Array(Vec<Enc>, W),
    ArrayIndef(Vec<Enc>),
    Map(Vec<(Enc, Enc)>, W),
    MapIndef(Vec<(Enc, Enc)>),
    Tag(u64, W, Box<Enc>),
    /// value, two-byte form (f8 xx)
    Simple(u8, bool),
    /// bits in the given width (2, 4 or 8 bytes)
    Float(u64, u8),
}

fn put_head(out: &mut Vec<u8>, major: u8, v: u64, w: W) {
    let m = major << 5;
    match w {
        0 => {
            debug_assert!(v < 24);
            out.push(m | v as u8)
        }
        1 => {
            out.push(m | 24);
            out.push(v as u8)
        }
        2 => {
            out.push(m | 25);
            out.extend_from_slice(&(v as u16).to_be_bytes())
        }
        4 => {
            out.push(m | 26);
            out.extend_from_slice(&(v as u32).to_be_bytes())
        }
        8 => {
            out.push(m | 27);
            out.extend_from_slice(&v.to_be_bytes())
        }
        _ => panic!("bad width"),
    }
}

pub fn f16_to_f64(h: u16) -> f64 {
    let sign = if h & 0x8000 != 0 { -1.0 } else { 1.0 };
    let exp = ((h >> 10) & 0x1f) as i32;
    let man = (h & 0x3ff) as f64;
    let v = if exp == 0 {
        man * 2f64.powi(-24)
    } else if exp == 31 {
        if man == 0.0 {
            f64::INFINITY
        } else {
            f64::NAN
        }
    } else {
        (1.0 + man / 1024.0) * 2f64.powi(exp - 15)
    };
    sign * v
}

/// Exact f64 -> f16 if representable.
pub fn f64_to_f16_exact(x: f64) -> Option<u16> {
    if x.is_nan() {
        return Some(0x7e00);
    }
    let sign: u16 = if x.is_sign_negative() { 0x8000 } else { 0 };
    let a = x.abs();
    if a == 0.0 {
        return Some(sign);
    }
    if a.is_infinite() {
        return Some(sign | 0x7c00);
    }
    // brute force over the 2^15 non-negative patterns would be simplest; do it arithmetically
    let scaled = a * 2f64.powi(24);
    if scaled.fract() != 0.0 {
        return None;
    }
    // a = k * 2^-24 with integer k
    if scaled < 1024.0 {
        return Some(sign | scaled as u16);
    }
    let bits = a.to_bits();
    let e = ((bits >> 52) & 0x7ff) as i32 - 1023;
    if !(-14..=15).contains(&e) {
        return None;
    }
    if bits & ((1u64 << 42) - 1) != 0 {
        return None;
    }
    let man = ((bits >> 42) & 0x3ff) as u16;
    Some(sign | (((e + 15) as u16) << 10) | man)
}

impl Enc {
    /// The preferred / deterministic encoding of a data-model item.
    pub fn canonical(i: &Item) -> Enc {
        match i {
            Item::UInt(v) => Enc::UInt(*v, min_w(*v)),
            Item::NInt(n) => Enc::NInt(*n, min_w(*n)),
            Item::Bytes(b) => Enc::Bytes(b.clone(), min_w(b.len() as u64)),
            Item::Text(t) => Enc::Text(t.clone(), min_w(t.len() as u64)),
            Item::Array(a) => Enc::Array(a.iter().map(Enc::canonical).collect(), min_w(a.len() as u64)),
            Item::Map(m) => Enc::Map(
                m.iter()
                    .map(|(k, v)| (Enc::canonical(k), Enc::canonical(v)))
                    .collect(),
                min_w(m.len() as u64),
            ),
            Item::Tag(t, i) => Enc::Tag(*t, min_w(*t), Box::new(Enc::canonical(i))),
            Item::Simple(s) => Enc::Simple(*s, *s >= 32),
            Item::Float(bits) => {
                let x = f64::from_bits(*bits);
                if let Some(h) = f64_to_f16_exact(x) {
                    Enc::Float(h as u64, 2)
                } else if ((x as f32) as f64).to_bits() == *bits {
                    Enc::Float((x as f32).to_bits() as u64, 4)
                } else {
                    Enc::Float(*bits, 8)
                }
            }
        }
    }

    pub fn write(&self, out: &mut Vec<u8>) {
        match self {
            Enc::UInt(v, w) => put_head(out, 0, *v, *w),
            Enc::NInt(n, w) => put_head(out, 1, *n, *w),
            Enc::Bytes(b, w) => {
                put_head(out, 2, b.len() as u64, *w);
                out.extend_from_slice(b)
            }
            Enc::BytesIndef(chunks) => {
                out.push(0x5f);
                for (b, w) in chunks {
                    put_head(out, 2, b.len() as u64, *w);
                    out.extend_from_slice(b);
                }
                out.push(0xff)
            }
            Enc::Text(t, w) => {
                put_head(out, 3, t.len() as u64, *w);
                out.extend_from_slice(t.as_bytes())
            }
            Enc::TextIndef(chunks) => {
                out.push(0x7f);
                for (t, w) in chunks {
                    put_head(out, 3, t.len() as u64, *w);
                    out.extend_from_slice(t.as_bytes());
                }
                out.push(0xff)
            }
            Enc::Array(a, w) => {
                put_head(out, 4, a.len() as u64, *w);
                for x in a {
                    x.write(out)
                }
            }
            Enc::ArrayIndef(a) => {
                out.push(0x9f);
                for x in a {
                    x.write(out)
                }
                out.push(0xff)
            }
            Enc::Map(m, w) => {
                put_head(out, 5, m.len() as u64, *w);
                for (k, v) in m {
                    k.write(out);
                    v.write(out)
                }
            }
            Enc::MapIndef(m) => {
                out.push(0xbf);
                for (k, v) in m {
                    k.write(out);
                    v.write(out)
                }
                out.push(0xff)
            }
            Enc::Tag(t, w, i) => {
                put_head(out, 6, *t, *w);
                i.write(out)
            }
            Enc::Simple(s, two) => {
                if *two {
                    out.push(0xf8);
                    out.push(*s)
                } else {
                    out.push(0xe0 | *s)
                }
            }
            Enc::Float(bits, w) => match w {
                2 => {
                    out.push(0xf9);
                    out.extend_from_slice(&(*bits as u16).to_be_bytes())
                }
                4 => {
                    out.push(0xfa);
                    out.extend_from_slice(&(*bits as u32).to_be_bytes())
                }
                _ => {
                    out.push(0xfb);
                    out.extend_from_slice(&bits.to_be_bytes())
                }
            },
        }
    }

    pub fn to_bytes(&self) -> Vec<u8> {
        let mut v = Vec::new();
        self.write(&mut v);
        v
    }

    /// Erase all encoding choices.
    pub fn item(&self) -> Item {
        match self {
            Enc::UInt(v, _) => Item::UInt(*v),
            Enc::NInt(n, _) => Item::NInt(*n),
            Enc::Bytes(b, _) => Item::Bytes(b.clone()),
            Enc::BytesIndef(c) => Item::Bytes(c.iter().flat_map(|(b, _)| b.iter().copied()).collect()),
            Enc::Text(t, _) => Item::Text(t.clone()),
            Enc::TextIndef(c) => Item::Text(c.iter().map(|(t, _)| t.as_str()).collect()),
            Enc::Array(a, _) | Enc::ArrayIndef(a) => Item::Array(a.iter().map(|x| x.item()).collect()),
            Enc::Map(m, _) | Enc::MapIndef(m) => {
                Item::Map(m.iter().map(|(k, v)| (k.item(), v.item())).collect())
            }
            Enc::Tag(t, _, i) => Item::Tag(*t, Box::new(i.item())),
            Enc::Simple(s, _) => Item::Simple(*s),
            Enc::Float(bits, w) => {
                let x = match w {
                    2 => f16_to_f64(*bits as u16),
                    4 => f32::from_bits(*bits as u32) as f64,
                    _ => f64::from_bits(*bits),
                };
                Item::float(x)
            }
        }
    }

    /// True iff this encoding is the deterministic one: definite lengths, shortest heads,
    /// shortest exact floats (map key order is *not* considered).
    pub fn is_deterministic(&self) -> bool {
        match self {
            Enc::UInt(v, w) | Enc::NInt(v, w) => *w == min_w(*v),
            Enc::Bytes(b, w) => *w == min_w(b.len() as u64),
            Enc::Text(t, w) => *w == min_w(t.len() as u64),
            Enc::Array(a, w) => *w == min_w(a.len() as u64) && a.iter().all(|x| x.is_deterministic()),
            Enc::Map(m, w) => {
                *w == min_w(m.len() as u64)
                    && m.iter().all(|(k, v)| k.is_deterministic() && v.is_deterministic())
            }
            Enc::Tag(t, w, i) => *w == min_w(*t) && i.is_deterministic(),
            Enc::Simple(s, two) => *two == (*s >= 32),
            Enc::Float(..) => {
                let c = Enc::canonical(&self.item());
                // NaNs: any width is tolerated
                matches!(self.item(), Item::Float(b) if f64::from_bits(b).is_nan()) || c == *self
            }
            Enc::BytesIndef(_) | Enc::TextIndef(_) | Enc::ArrayIndef(_) | Enc::MapIndef(_) => false,
        }
    }

    /// True iff every length is definite (heads may be wide).
    pub fn is_definite(&self) -> bool {
        match self {
            Enc::Array(a, _) => a.iter().all(|x| x.is_definite()),
            Enc::Map(m, _) => m.iter().all(|(k, v)| k.is_definite() && v.is_definite()),
            Enc::Tag(_, _, i) => i.is_definite(),
            Enc::BytesIndef(_) | Enc::TextIndef(_) | Enc::ArrayIndef(_) | Enc::MapIndef(_) => false,
            _ => true,
        }
    }
}

// ---------------------------------------------------------------------------------------------
// Strict reader

#[derive(Clone, Debug, PartialEq, Eq)]
pub enum ReadErr {
    /// input ended inside the item
    Truncated,
    /// not well-formed (reserved additional info, stray break, bad chunk, two-byte simple < 32 …)
    Malformed(&'static str),
    /// well-formed but invalid: text that is not UTF-8
    InvalidUtf8,
    TooDeep,
}

pub struct Reader<'a> {
    b: &'a [u8],
    pub pos: usize,
    max_depth: usize,
}

impl<'a> Reader<'a> {
    pub fn new(b: &'a [u8]) -> Self {
        Reader { b, pos: 0, max_depth: 2000 }
    }
    fn byte(&mut self) -> Result<u8, ReadErr> {
        let x = *self.b.get(self.pos).ok_or(ReadErr::Truncated)?;
        self.pos += 1;
        Ok(x)
    }
    fn take(&mut self, n: u64) -> Result<&'a [u8], ReadErr> {
        let rem = (self.b.len() - self.pos) as u64;
        if n > rem {
            return Err(ReadErr::Truncated);
        }
        let s = &self.b[self.pos..self.pos + n as usize];
        self.pos += n as usize;
        Ok(s)
    }
    /// returns (argument, width) for additional info 0..27
    fn arg(&mut self, ai: u8) -> Result<(u64, W), ReadErr> {
        Ok(match ai {
            0..=23 => (ai as u64, 0),
            24 => (self.byte()? as u64, 1),
            25 => {
                let s = self.take(2)?;
                (u16::from_be_bytes([s[0], s[1]]) as u64, 2)
            }
            26 => {
                let s = self.take(4)?;
                (u32::from_be_bytes([s[0], s[1], s[2], s[3]]) as u64, 4)
            }
            27 => {
                let s = self.take(8)?;
                let mut a = [0u8; 8];
                a.copy_from_slice(s);
                (u64::from_be_bytes(a), 8)
            }
            _ => return Err(ReadErr::Malformed("reserved additional information")),
        })
    }

    pub fn item(&mut self, depth: usize) -> Result<Enc, ReadErr> {
        if depth > self.max_depth {
            return Err(ReadErr::TooDeep);
        }
        let ib = self.byte()?;
        let major = ib >> 5;
        let ai = ib & 0x1f;
        match major {
            0 => {
                let (v, w) = self.arg(ai)?;
                Ok(Enc::UInt(v, w))
            }
            1 => {
                let (v, w) = self.arg(ai)?;
                Ok(Enc::NInt(v, w))
            }
            2 | 3 => {
                if ai == 31 {
                    let mut chunks: Vec<(Vec<u8>, W)> = Vec::new();
                    loop {
                        let cb = self.byte()?;
                        if cb == 0xff {
                            break;
                        }
                        if cb >> 5 != major || cb & 0x1f == 31 {
                            return Err(ReadErr::Malformed("bad chunk in indefinite-length string"));
                        }
                        let (n, w) = self.arg(cb & 0x1f)?;
                        let s = self.take(n)?;
                        chunks.push((s.to_vec(), w));
                    }
                    if major == 2 {
                        Ok(Enc::BytesIndef(chunks))
                    } else {
                        let mut out = Vec::new();
                        for (c, w) in chunks {
                            out.push((String::from_utf8(c).map_err(|_| ReadErr::InvalidUtf8)?, w));
                        }
                        Ok(Enc::TextIndef(out))
                    }
                } else {
                    let (n, w) = self.arg(ai)?;
                    let s = self.take(n)?;
                    if major == 2 {
                        Ok(Enc::Bytes(s.to_vec(), w))
                    } else {
                        Ok(Enc::Text(
                            String::from_utf8(s.to_vec()).map_err(|_| ReadErr::InvalidUtf8)?,
                            w,
                        ))
                    }
                }
            }
            4 => {
                if ai == 31 {
                    let mut a = Vec::new();
                    loop {
                        if *self.b.get(self.pos).ok_or(ReadErr::Truncated)? == 0xff {
                            self.pos += 1;
                            break;
                        }
                        a.push(self.item(depth + 1)?);
                    }
                    Ok(Enc::ArrayIndef(a))
                } else {
                    let (n, w) = self.arg(ai)?;
                    let mut a = Vec::new();
                    for _ in 0..n {
                        a.push(self.item(depth + 1)?);
                    }
                    Ok(Enc::Array(a, w))
                }
            }
            5 => {
                if ai == 31 {
                    let mut m = Vec::new();
                    loop {
                        if *self.b.get(self.pos).ok_or(ReadErr::Truncated)? == 0xff {
                            self.pos += 1;
                            break;
                        }
                        let k = self.item(depth + 1)?;
                        let v = self.item(depth + 1)?;
                        m.push((k, v));
                    }
                    Ok(Enc::MapIndef(m))
                } else {
                    let (n, w) = self.arg(ai)?;
                    let mut m = Vec::new();
                    for _ in 0..n {
                        let k = self.item(depth + 1)?;
                        let v = self.item(depth + 1)?;
                        m.push((k, v));
                    }
                    Ok(Enc::Map(m, w))
                }
            }
            6 => {
                let (t, w) = self.arg(ai)?;
                let i = self.item(depth + 1)?;
                Ok(Enc::Tag(t, w, Box::new(i)))
            }
            _ => match ai {
                0..=23 => Ok(Enc::Simple(ai, false)),
                24 => {
                    let s = self.byte()?;
                    if s < 32 {
                        Err(ReadErr::Malformed("two-byte simple value below 32"))
                    } else {
                        Ok(Enc::Simple(s, true))
                    }
                }
                25 => {
                    let s = self.take(2)?;
                    Ok(Enc::Float(u16::from_be_bytes([s[0], s[1]]) as u64, 2))
                }
                26 => {
                    let s = self.take(4)?;
                    Ok(Enc::Float(u32::from_be_bytes([s[0], s[1], s[2], s[3]]) as u64, 4))
                }
                27 => {
                    let s = self.take(8)?;
                    let mut a = [0u8; 8];
                    a.copy_from_slice(s);
                    Ok(Enc::Float(u64::from_be_bytes(a), 8))
                }
                31 => Err(ReadErr::Malformed("stray break")),
                _ => Err(ReadErr::Malformed("reserved additional information")),
            },
        }
    }
}

/// Read exactly one item; Ok((enc, bytes_used)).
pub fn read_prefix(b: &[u8]) -> Result<(Enc, usize), ReadErr> {
    let mut r = Reader::new(b);
    let e = r.item(0)?;
    Ok((e, r.pos))
}

#[derive(Clone, Debug, PartialEq, Eq)]
pub enum ReadAll {
    One(Enc),
    Trailing(Enc, usize),
    Err(ReadErr),
}

pub fn read_all(b: &[u8]) -> ReadAll {
    match read_prefix(b) {
        Ok((e, n)) if n == b.len() => ReadAll::One(e),
        Ok((e, n)) => ReadAll::Trailing(e, n),
        Err(e) => ReadAll::Err(e),
    }
}

/// Read bytes that are known to be exactly one item (used on the subject's outputs).
pub fn read_exact(b: &[u8]) -> Result<Enc, String> {
    match read_all(b) {
        ReadAll::One(e) => Ok(e),
        ReadAll::Trailing(_, n) => Err(format!("trailing data after {} bytes", n)),
        ReadAll::Err(e) => Err(format!("{:?}", e)),
    }
}

// ---------------------------------------------------------------------------------------------
// Deviation-bounded enumeration of encodings

/// Kinds of encoding deviations that may be enumerated.
#[derive(Clone, Copy, Debug)]
pub struct DevOpts {
    pub widths: bool,
    pub indefinite: bool,
    pub map_order: bool,
    pub bignum: bool,
    pub float_width: bool,
}

impl DevOpts {
    pub const ALL: DevOpts = DevOpts { widths: true, indefinite: true, map_order: true, bignum: true, float_width: true };
    pub const NO_BIGNUM: DevOpts = DevOpts { widths: true, indefinite: true, map_order: true, bignum: false, float_width: true };
    pub const NO_ORDER: DevOpts = DevOpts { widths: true, indefinite: true, map_order: false, bignum: false, float_width: true };
}

fn split_text(t: &str) -> Option<(String, String)> {
    if t.chars().count() < 2 {
        return None;
    }
    let mid = t.char_indices().nth(t.chars().count() / 2).unwrap().0;
    Some((t[..mid].to_string(), t[mid..].to_string()))
}

fn permutations<T: Clone>(v: &[T]) -> Vec<Vec<T>> {
    if v.len() <= 1 {
        return vec![v.to_vec()];
    }
    let mut out = Vec::new();
    for i in 0..v.len() {
        let mut rest = v.to_vec();
        let x = rest.remove(i);
        for mut p in permutations(&rest) {
            p.insert(0, x.clone());
            out.push(p);
        }
    }
    out
}

fn bignum_of(neg: bool, n: u64) -> Enc {
    let be = n.to_be_bytes();
    let first = be.iter().position(|b| *b != 0).unwrap_or(8);
    let bytes = be[first..].to_vec();
    let w = min_w(bytes.len() as u64);
    Enc::Tag(if neg { 3 } else { 2 }, 0, Box::new(Enc::Bytes(bytes, w)))
}

impl Enc {
    /// All encodings that differ from `self` by exactly one deviation step at one position.
    pub fn deviations(&self, o: &DevOpts) -> Vec<Enc> {
        let mut out = Vec::new();
        // deviations at this node
        match self {
            Enc::UInt(v, w) => {
                if o.widths {
                    for w2 in wider(*w) {
                        out.push(Enc::UInt(*v, *w2));
                    }
                }
                if o.bignum {
                    out.push(bignum_of(false, *v));
                }
            }
            Enc::NInt(n, w) => {
                if o.widths {
                    for w2 in wider(*w) {
                        out.push(Enc::NInt(*n, *w2));
                    }
                }
                if o.bignum {
                    out.push(bignum_of(true, *n));
                }
            }
            Enc::Bytes(b, w) => {
                if o.widths {
                    for w2 in wider(*w) {
                        out.push(Enc::Bytes(b.clone(), *w2));
                    }
                }
                if o.indefinite {
                    if b.is_empty() {
                        out.push(Enc::BytesIndef(vec![]));
                        out.push(Enc::BytesIndef(vec![(vec![], 0)]));
                    } else {
                        out.push(Enc::BytesIndef(vec![(b.clone(), min_w(b.len() as u64))]));
                        if b.len() >= 2 {
                            let (x, y) = b.split_at(b.len() / 2);
                            out.push(Enc::BytesIndef(vec![
                                (x.to_vec(), min_w(x.len() as u64)),
                                (y.to_vec(), min_w(y.len() as u64)),
                            ]));
                        }
                    }
                }
            }
            Enc::Text(t, w) => {
                if o.widths {
                    for w2 in wider(*w) {
                        out.push(Enc::Text(t.clone(), *w2));
                    }
                }
                if o.indefinite {
                    if t.is_empty() {
                        out.push(Enc::TextIndef(vec![]));
                    } else {
                        out.push(Enc::TextIndef(vec![(t.clone(), min_w(t.len() as u64))]));
                        if let Some((x, y)) = split_text(t) {
                            let (wx, wy) = (min_w(x.len() as u64), min_w(y.len() as u64));
                            out.push(Enc::TextIndef(vec![(x, wx), (y, wy)]));
                        }
                    }
                }
            }
            Enc::Array(a, w) => {
                if o.widths {
                    for w2 in wider(*w) {
                        out.push(Enc::Array(a.clone(), *w2));
                    }
                }
                if o.indefinite {
                    out.push(Enc::ArrayIndef(a.clone()));
                }
            }
            Enc::Map(m, w) => {
                if o.widths {
                    for w2 in wider(*w) {
                        out.push(Enc::Map(m.clone(), *w2));
                    }
                }
                if o.indefinite {
                    out.push(Enc::MapIndef(m.clone()));
                }
                if o.map_order && m.len() >= 2 {
                    if m.len() <= 3 {
                        for p in permutations(m).into_iter().skip(1) {
                            out.push(Enc::Map(p, *w));
                        }
                    } else {
                        for i in 0..m.len() - 1 {
                            let mut p = m.clone();
                            p.swap(i, i + 1);
                            out.push(Enc::Map(p, *w));
                        }
                        let mut p = m.clone();
                        p.reverse();
                        out.push(Enc::Map(p, *w));
                    }
                }
            }
            Enc::Tag(t, w, i) => {
                if o.widths {
                    for w2 in wider(*w) {
                        out.push(Enc::Tag(*t, *w2, i.clone()));
                    }
                }
            }
            Enc::Float(bits, w) => {
                if o.float_width {
                    let x = match w {
                        2 => f16_to_f64(*bits as u16),
                        4 => f32::from_bits(*bits as u32) as f64,
                        _ => f64::from_bits(*bits),
                    };
                    if *w == 2 {
                        out.push(Enc::Float((x as f32).to_bits() as u64, 4));
                    }
                    if *w < 8 {
                        out.push(Enc::Float(x.to_bits(), 8));
                    }
                }
            }
            _ => {}
        }
        // deviations inside children
        match self {
            Enc::Array(a, w) => {
                for (i, c) in a.iter().enumerate() {
                    for d in c.deviations(o) {
                        let mut a2 = a.clone();
                        a2[i] = d;
                        out.push(Enc::Array(a2, *w));
                    }
                }
            }
            Enc::ArrayIndef(a) => {
                for (i, c) in a.iter().enumerate() {
                    for d in c.deviations(o) {
                        let mut a2 = a.clone();
                        a2[i] = d;
                        out.push(Enc::ArrayIndef(a2));
                    }
                }
            }
            Enc::Map(m, w) => {
                for (i, (k, v)) in m.iter().enumerate() {
                    for d in k.deviations(o) {
                        let mut m2 = m.clone();
                        m2[i].0 = d;
                        out.push(Enc::Map(m2, *w));
                    }
                    for d in v.deviations(o) {
                        let mut m2 = m.clone();
                        m2[i].1 = d;
                        out.push(Enc::Map(m2, *w));
                    }
                }
            }
            Enc::MapIndef(m) => {
                for (i, (k, v)) in m.iter().enumerate() {
                    for d in k.deviations(o) {
                        let mut m2 = m.clone();
                        m2[i].0 = d;
                        out.push(Enc::MapIndef(m2));
                    }
                    for d in v.deviations(o) {
                        let mut m2 = m.clone();
                        m2[i].1 = d;
                        out.push(Enc::MapIndef(m2));
                    }
                }
            }
            Enc::Tag(t, w, i) => {
                for d in i.deviations(o) {
                    out.push(Enc::Tag(*t, *w, Box::new(d)));
                }
            }
            _ => {}
        }
        out
    }

    /// All distinct encodings reachable with at most `d` deviation steps (including `self`).
    /// Returned in order of increasing deviation count, deduplicated by bytes.
    pub fn within(&self, d: usize, o: &DevOpts) -> Vec<(usize, Enc)> {
        let mut seen = std::collections::HashSet::new();
        let mut out = vec![(0usize, self.clone())];
        seen.insert(self.to_bytes());
        let mut frontier = vec![self.clone()];
        for level in 1..=d {
            let mut next = Vec::new();
            for e in &frontier {
                for x in e.deviations(o) {
                    if seen.insert(x.to_bytes()) {
                        out.push((level, x.clone()));
                        next.push(x);
                    }
                }
            }
            frontier = next;
        }
        out
    }

    pub fn any(&self, pred: &dyn Fn(&Enc) -> bool) -> bool {
        if pred(self) {
            return true;
        }
        match self {
            Enc::Array(a, _) | Enc::ArrayIndef(a) => a.iter().any(|x| x.any(pred)),
            Enc::Map(m, _) | Enc::MapIndef(m) => m.iter().any(|(k, v)| k.any(pred) || v.any(pred)),
            Enc::Tag(_, _, i) => i.any(pred),
            _ => false,
        }
    }

    /// Tag 2/3 over an indefinite-length byte string: ciborium keeps this one as a tag but folds
    /// the definite-length form into an integer.
    pub fn has_bignum_over_indefinite(&self) -> bool {
        self.any(&|e| matches!(e, Enc::Tag(2 | 3, _, inner) if matches!(**inner, Enc::BytesIndef(_))))
    }

    pub fn has_bignum_form(&self) -> bool {
        self.item().has_bignum_tag()
    }
}

/// All encodings of `item` with at most `d` deviations from the deterministic one.
pub fn encodings(item: &Item, d: usize, o: &DevOpts) -> Vec<(usize, Enc)> {
    Enc::canonical(item).within(d, o)
}

/// Self test: writer/reader round trip over every style of a fixed set of items.
pub fn selftest() -> Result<usize, String> {
    let items = vec![
        Item::UInt(0),
        Item::UInt(23),
        Item::UInt(24),
        Item::UInt(65536),
        Item::UInt(u64::MAX),
        Item::NInt(0),
        Item::NInt(u64::MAX),
        Item::bytes(b""),
        Item::bytes(b"abc"),
        Item::text(""),
        Item::text("h\u{e9}\u{20ac}"),
        Item::Array(vec![Item::UInt(1), Item::text("a")]),
        Item::Map(vec![(Item::UInt(1), Item::NInt(6)), (Item::text("a"), NULL), (Item::UInt(4), Item::bytes(b"k"))]),
        Item::tag(18, Item::Array(vec![])),
        FALSE,
        TRUE,
        NULL,
        UNDEFINED,
        Item::Simple(32),
        Item::float(1.5),
        Item::float(1.1),
        Item::float(100000.0),
        Item::float(f64::INFINITY),
        Item::float(f64::NAN),
        Item::float(5.960464477539063e-8),
    ];
    let mut n = 0;
    for it in &items {
        if Enc::canonical(it).item() != *it {
            return Err(format!("canonical/erase mismatch for {:?}", it));
        }
        if !Enc::canonical(it).is_deterministic() {
            return Err(format!("canonical not deterministic for {:?}", it));
        }
        for (lvl, e) in encodings(it, 2, &DevOpts::NO_ORDER) {
            let b = e.to_bytes();
            match read_all(&b) {
                ReadAll::One(e2) => {
                    if e2 != e {
                        return Err(format!("reader/writer disagree on {} -> {:?} vs {:?}", hex(&b), e, e2));
                    }
                    if e2.item() != *it {
                        return Err(format!("item changed under style: {} {:?}", hex(&b), it));
                    }
                    if lvl > 0 && e2.is_deterministic() && !matches!(it, Item::Float(b) if f64::from_bits(*b).is_nan()) {
                        return Err(format!("deviating encoding reported deterministic: {}", hex(&b)));
                    }
                }
                x => return Err(format!("reader failed on {}: {:?}", hex(&b), x)),
            }
            for k in 0..b.len() {
                match read_all(&b[..k]) {
                    ReadAll::Err(ReadErr::Truncated) => {}
                    x => return Err(format!("prefix {} of {} not truncated: {:?}", k, hex(&b), x)),
                }
            }
            n += 1;
        }
    }
    // known vectors from RFC 8949 appendix A
    let vecs: &[(&str, Item)] = &[
        ("1903e8", Item::UInt(1000)),
        ("3903e7", Item::NInt(999)),
        ("f93c00", Item::float(1.0)),
        ("f97bff", Item::float(65504.0)),
        ("fa47c35000", Item::float(100000.0)),
        ("fb3ff199999999999a", Item::float(1.1)),
        ("f90001", Item::float(5.960464477539063e-8)),
        ("f90400", Item::float(0.00006103515625)),
        ("f9c400", Item::float(-4.0)),
        ("f97c00", Item::float(f64::INFINITY)),
        ("c074323031332d30332d32315432303a30343a30305a", Item::tag(0, Item::text("2013-03-21T20:04:00Z"))),
        ("a201020304", Item::Map(vec![(Item::UInt(1), Item::UInt(2)), (Item::UInt(3), Item::UInt(4))])),
        ("5f42010243030405ff", Item::bytes(&[1, 2, 3, 4, 5])),
        ("7f657374726561646d696e67ff", Item::text("streaming")),
        ("9f018202039f0405ffff", Item::Array(vec![Item::UInt(1), Item::Array(vec![Item::UInt(2), Item::UInt(3)]), Item::Array(vec![Item::UInt(4), Item::UInt(5)])])),
    ];
    for (h, it) in vecs {
        let b = unhex(h).unwrap();
        match read_all(&b) {
            ReadAll::One(e) if e.item() == *it => {}
            x => return Err(format!("RFC vector {} read as {:?}", h, x)),
        }
        if Enc::canonical(it).is_definite() && read_exact(&b).unwrap().is_deterministic() && it.det() != b {
            return Err(format!("RFC vector {} re-encodes as {}", h, hex(&it.det())));
        }
        n += 1;
    }
    for bad in ["f800", "f81f", "1c", "ff", "5f6161ff", "7f4161ff", "61ff", "5f5f4101ffff", "818181"] {
        let b = unhex(bad).unwrap();
        if let ReadAll::One(_) = read_all(&b) {
            return Err(format!("reader accepted malformed {}", bad));
        }
        n += 1;
    }
    Ok(n)
}
