//! cosetmc: bounded exhaustive exploration of google/coset against independent reference models.

mod alloc_count;
mod gen;
mod mc;
mod oracle;
mod refcbor;
mod refcose;
mod refiana;
mod spaces;
mod subject;
#[cfg(feature = "xcheck")]
mod xcheck;

use mc::{Report, Tier};

#[global_allocator]
static ALLOC: alloc_count::Counting = alloc_count::Counting;

fn usage() -> ! {
    eprintln!("usage: cosetmc run <ID> <quick|thorough> | replay <file> | selftest");
    std::process::exit(2)
}

fn main() {
    subject::install_panic_hook();
    let args: Vec<String> = std::env::args().collect();
    if args.len() < 2 {
        usage();
    }
    match args[1].as_str() {
        "selftest" => {
            let mut ok = true;
            match refcbor::selftest() {
                Ok(n) => println!("refcbor selftest: {} cases ok", n),
                Err(e) => {
                    println!("refcbor selftest FAILED: {}", e);
                    ok = false
                }
            }
            match refiana::selftest() {
                Ok(n) => println!("refiana selftest: {} rows ok", n),
                Err(e) => {
                    println!("refiana selftest FAILED: {}", e);
                    ok = false
                }
            }
            match spaces::selftest() {
                Ok(n) => println!("model selftest: {} cases ok", n),
                Err(e) => {
                    println!("model selftest FAILED: {}", e);
                    ok = false
                }
            }
            std::process::exit(if ok { 0 } else { 2 });
        }
        "run" => {
            if args.len() < 4 {
                usage();
            }
            let tier = match args[3].as_str() {
                "quick" => Tier::Quick,
                "thorough" => Tier::Thorough,
                _ => usage(),
            };
            let threads: usize = std::env::var("VERIF_THREADS").ok().and_then(|s| s.parse().ok()).unwrap_or(16);
            rayon::ThreadPoolBuilder::new().num_threads(threads).stack_size(16 << 20).build_global().unwrap();
            let rep = Report::new(&args[2], tier);
            let min_states = match spaces::run(&rep) {
                Some(m) => m,
                None => {
                    eprintln!("unknown property {}", args[2]);
                    std::process::exit(2)
                }
            };
            let f = mc::finish(&rep, min_states, &spaces::recheck);
            std::process::exit(f.exit_code);
        }
        "replay" => {
            if args.len() < 3 {
                usage();
            }
            rayon::ThreadPoolBuilder::new().num_threads(16).stack_size(16 << 20).build_global().unwrap();
            std::process::exit(spaces::replay(&args[2]));
        }
        #[cfg(feature = "xcheck")]
        "xcheck" => {
            rayon::ThreadPoolBuilder::new().num_threads(16).stack_size(16 << 20).build_global().unwrap();
            std::process::exit(xcheck::run());
        }
        "child" => {
            std::process::exit(spaces::child(&args[2..]));
        }
        _ => usage(),
    }
}
