//! Reference rules for the COSE / CWT structures, transliterated from the CDDL of RFC 8152,
//! RFC 8392 and from the property statements (DESIGN.md appendix A).  Works on `refcbor::Item`
//! only; knows nothing about coset or ciborium.

use crate::refcbor::{read_all, Item, ReadAll, ReadErr, NULL};
use crate::refiana::{self, Reg};

// ---------------------------------------------------------------------------------------------
// Reference values (field maps)

#[derive(Clone, Debug, PartialEq, Eq, Hash, PartialOrd, Ord)]
pub enum RLabel {
    Int(i64),
    Text(String),
}

impl RLabel {
    pub fn item(&self) -> Item {
        match self {
            RLabel::Int(i) => Item::int(*i as i128),
            RLabel::Text(t) => Item::Text(t.clone()),
        }
    }
}

#[derive(Clone, Debug, PartialEq, Eq, Default, Hash)]
pub struct RHeader {
    pub alg: Option<RLabel>,
    pub crit: Vec<RLabel>,
    pub content_type: Option<RLabel>,
    pub key_id: Vec<u8>,
    pub iv: Vec<u8>,
    pub partial_iv: Vec<u8>,
    pub counter_signatures: Vec<RSignature>,
    pub rest: Vec<(RLabel, Item)>,
}

impl RHeader {
    pub fn is_empty(&self) -> bool {
        *self == RHeader::default()
    }
}

#[derive(Clone, Debug, PartialEq, Eq, Default, Hash)]
pub struct RProtected {
    /// bytes retained from the wire (content of the bstr), if the value came from the wire
    pub original: Option<Vec<u8>>,
    pub header: RHeader,
}

#[derive(Clone, Debug, PartialEq, Eq, Default, Hash)]
pub struct RSignature {
    pub protected: RProtected,
    pub unprotected: RHeader,
    pub signature: Vec<u8>,
}

#[derive(Clone, Debug, PartialEq, Eq, Default, Hash)]
pub struct RSign {
    pub protected: RProtected,
    pub unprotected: RHeader,
    pub payload: Option<Vec<u8>>,
    pub signatures: Vec<RSignature>,
}

#[derive(Clone, Debug, PartialEq, Eq, Default, Hash)]
pub struct RSign1 {
    pub protected: RProtected,
    pub unprotected: RHeader,
    pub payload: Option<Vec<u8>>,
    pub signature: Vec<u8>,
}

#[derive(Clone, Debug, PartialEq, Eq, Default, Hash)]
pub struct RMac {
    pub protected: RProtected,
    pub unprotected: RHeader,
    pub payload: Option<Vec<u8>>,
    pub tag: Vec<u8>,
    pub recipients: Vec<RRecipient>,
}

#[derive(Clone, Debug, PartialEq, Eq, Default, Hash)]
pub struct RMac0 {
    pub protected: RProtected,
    pub unprotected: RHeader,
    pub payload: Option<Vec<u8>>,
    pub tag: Vec<u8>,
}

#[derive(Clone, Debug, PartialEq, Eq, Default, Hash)]
pub struct REncrypt {
    pub protected: RProtected,
    pub unprotected: RHeader,
    pub ciphertext: Option<Vec<u8>>,
    pub recipients: Vec<RRecipient>,
}

#[derive(Clone, Debug, PartialEq, Eq, Default, Hash)]
pub struct REncrypt0 {
    pub protected: RProtected,
    pub unprotected: RHeader,
    pub ciphertext: Option<Vec<u8>>,
}

#[derive(Clone, Debug, PartialEq, Eq, Default, Hash)]
pub struct RRecipient {
    pub protected: RProtected,
    pub unprotected: RHeader,
    pub ciphertext: Option<Vec<u8>>,
    pub recipients: Vec<RRecipient>,
}

#[derive(Clone, Debug, PartialEq, Eq, Hash)]
pub struct RKey {
    pub kty: RLabel,
    pub key_id: Vec<u8>,
    pub alg: Option<RLabel>,
    /// a set: kept sorted and without repetition
    pub key_ops: Vec<RLabel>,
    pub base_iv: Vec<u8>,
    pub params: Vec<(RLabel, Item)>,
}

#[derive(Clone, Debug, PartialEq, Eq, Hash)]
pub enum RTime {
    Whole(i64),
    /// normalised f64 bits
    Frac(u64),
}

#[derive(Clone, Debug, PartialEq, Eq, Default, Hash)]
pub struct RClaims {
    pub iss: Option<String>,
    pub sub: Option<String>,
    pub aud: Option<String>,
    pub exp: Option<RTime>,
    pub nbf: Option<RTime>,
    pub iat: Option<RTime>,
    pub cti: Option<Vec<u8>>,
    pub rest: Vec<(RLabel, Item)>,
}

#[derive(Clone, Debug, PartialEq, Eq, Hash)]
pub enum RNonce {
    Bytes(Vec<u8>),
    Int(i64),
}

#[derive(Clone, Debug, PartialEq, Eq, Default, Hash)]
pub struct RParty {
    pub identity: Option<Vec<u8>>,
    pub nonce: Option<RNonce>,
    pub other: Option<Vec<u8>>,
}

#[derive(Clone, Debug, PartialEq, Eq, Default, Hash)]
pub struct RSuppPub {
    pub key_data_length: u64,
    pub protected: RProtected,
    pub other: Option<Vec<u8>>,
}

#[derive(Clone, Debug, PartialEq, Eq, Hash)]
pub struct RKdf {
    pub alg: RLabel,
    pub u: RParty,
    pub v: RParty,
    pub supp_pub: RSuppPub,
    pub supp_priv: Vec<Vec<u8>>,
}

/// Which registry-restricted label type.
#[derive(Clone, Copy, Debug, PartialEq, Eq, Hash)]
pub struct RegTy {
    pub reg: Reg,
    pub with_private: bool,
}

/// The types of the crate's public decoding surface.
#[derive(Clone, Copy, Debug, PartialEq, Eq, Hash)]
pub enum Ty {
    Header,
    Protected,
    Signature,
    Sign,
    Sign1,
    Mac,
    Mac0,
    Encrypt,
    Encrypt0,
    Recipient,
    Key,
    KeySet,
    Claims,
    Party,
    SuppPub,
    Kdf,
    Label,
    RegLabel(RegTy),
    Timestamp,
}

pub const MSG_TYPES: [Ty; 8] = [Ty::Sign1, Ty::Sign, Ty::Signature, Ty::Mac, Ty::Mac0, Ty::Encrypt, Ty::Encrypt0, Ty::Recipient];
pub const TAGGED_TYPES: [Ty; 6] = [Ty::Sign, Ty::Sign1, Ty::Encrypt, Ty::Encrypt0, Ty::Mac, Ty::Mac0];

pub const REG_TYS: [RegTy; 12] = [
    RegTy { reg: Reg::Algorithm, with_private: true },
    RegTy { reg: Reg::HeaderParameter, with_private: true },
    RegTy { reg: Reg::EllipticCurve, with_private: true },
    RegTy { reg: Reg::CwtClaimName, with_private: true },
    RegTy { reg: Reg::HeaderParameter, with_private: false },
    RegTy { reg: Reg::CoapContentFormat, with_private: false },
    RegTy { reg: Reg::KeyType, with_private: false },
    RegTy { reg: Reg::KeyOperation, with_private: false },
    RegTy { reg: Reg::Algorithm, with_private: false },
    RegTy { reg: Reg::KeyParameter, with_private: false },
    RegTy { reg: Reg::CborTag, with_private: false },
    RegTy { reg: Reg::Ec2KeyParameter, with_private: false },
];

pub fn all_types() -> Vec<Ty> {
    let mut v = vec![
        Ty::Header,
        Ty::Protected,
        Ty::Signature,
        Ty::Sign,
        Ty::Sign1,
        Ty::Mac,
        Ty::Mac0,
        Ty::Encrypt,
        Ty::Encrypt0,
        Ty::Recipient,
        Ty::Key,
        Ty::KeySet,
        Ty::Claims,
        Ty::Party,
        Ty::SuppPub,
        Ty::Kdf,
        Ty::Label,
        Ty::Timestamp,
    ];
    for r in REG_TYS {
        v.push(Ty::RegLabel(r));
    }
    v
}

/// RFC 8152 table 1 (and section 2): registered CBOR tags of the taggable messages.
pub fn tag_of(t: Ty) -> Option<u64> {
    match t {
        Ty::Sign => Some(98),
        Ty::Sign1 => Some(18),
        Ty::Encrypt => Some(96),
        Ty::Encrypt0 => Some(16),
        Ty::Mac => Some(97),
        Ty::Mac0 => Some(17),
        _ => None,
    }
}

#[derive(Clone, Debug, PartialEq, Eq, Hash)]
pub enum RVal {
    Header(RHeader),
    Protected(RProtected),
    Signature(RSignature),
    Sign(RSign),
    Sign1(RSign1),
    Mac(RMac),
    Mac0(RMac0),
    Encrypt(REncrypt),
    Encrypt0(REncrypt0),
    Recipient(RRecipient),
    Key(RKey),
    KeySet(Vec<RKey>),
    Claims(RClaims),
    Party(RParty),
    SuppPub(RSuppPub),
    Kdf(RKdf),
    Label(RLabel),
    RegLabel(RegTy, RLabel),
    Timestamp(RTime),
}

impl RVal {
    pub fn ty(&self) -> Ty {
        match self {
            RVal::Header(_) => Ty::Header,
            RVal::Protected(_) => Ty::Protected,
            RVal::Signature(_) => Ty::Signature,
            RVal::Sign(_) => Ty::Sign,
            RVal::Sign1(_) => Ty::Sign1,
            RVal::Mac(_) => Ty::Mac,
            RVal::Mac0(_) => Ty::Mac0,
            RVal::Encrypt(_) => Ty::Encrypt,
            RVal::Encrypt0(_) => Ty::Encrypt0,
            RVal::Recipient(_) => Ty::Recipient,
            RVal::Key(_) => Ty::Key,
            RVal::KeySet(_) => Ty::KeySet,
            RVal::Claims(_) => Ty::Claims,
            RVal::Party(_) => Ty::Party,
            RVal::SuppPub(_) => Ty::SuppPub,
            RVal::Kdf(_) => Ty::Kdf,
            RVal::Label(_) => Ty::Label,
            RVal::RegLabel(r, _) => Ty::RegLabel(*r),
            RVal::Timestamp(_) => Ty::Timestamp,
        }
    }
}

// ---------------------------------------------------------------------------------------------
// Verdicts

#[derive(Clone, Copy, Debug, PartialEq, Eq, Hash, PartialOrd, Ord)]
pub enum FaultKind {
    /// two keys denote the same label (C12 names the error)
    Duplicate,
    /// integer outside the supported range in an interpreted position (C15 names the error)
    OutOfRange,
    /// bytes after the single item inside a protected bstr (C13 names the error)
    Extraneous,
    /// `undefined` where only nil or a byte string is allowed: must be rejected, but a CBOR layer
    /// that folds undefined into null cannot tell (known finding, tracked separately)
    UndefinedForNil,
    Other,
}

#[derive(Clone, Debug, PartialEq, Eq, Hash, PartialOrd, Ord)]
pub struct Fault {
    pub rule: &'static str,
    pub kind: FaultKind,
}

#[derive(Clone, Debug, PartialEq)]
pub enum Verdict {
    Accept(RVal),
    /// must be rejected; `clean` = no unspecified element was involved, so if there is exactly one
    /// fault of a named kind the error kind is pinned too
    Reject { faults: Vec<Fault>, clean: bool },
    Unspecified(Vec<String>),
}

#[derive(Default)]
pub struct Ctx {
    pub faults: Vec<Fault>,
    pub unspec: Vec<String>,
    /// the input contains something the subject's CBOR parser may fold or refuse wholesale
    /// (bignum tags, unassigned simple values): nothing about accept/reject is specified then
    pub parser_unspec: bool,
    /// nesting of header maps (through counter-signatures) seen so far
    pub hdr_depth: usize,
}

/// Beyond this many levels of header nesting (headers inside counter-signatures inside headers)
/// the accept/reject verdict is left unspecified: an implementation may impose a nesting limit
/// (C01 demands a bounded stack), and the properties do not say where.
pub const MAX_SPECIFIED_HEADER_NESTING: usize = 4;

impl Ctx {
    fn fault(&mut self, rule: &'static str, kind: FaultKind) {
        self.faults.push(Fault { rule, kind });
    }
    fn other(&mut self, rule: &'static str) {
        self.fault(rule, FaultKind::Other);
    }
    fn unspec(&mut self, why: &str) {
        if !self.unspec.iter().any(|x| x == why) {
            self.unspec.push(why.to_string());
        }
    }
    pub fn finish(self, v: Option<RVal>) -> Verdict {
        if self.parser_unspec {
            return Verdict::Unspecified(self.unspec);
        }
        if !self.faults.is_empty() {
            let mut f = self.faults;
            f.sort();
            Verdict::Reject { faults: f, clean: self.unspec.is_empty() }
        } else if !self.unspec.is_empty() {
            Verdict::Unspecified(self.unspec)
        } else {
            Verdict::Accept(v.expect("reference decode produced neither value nor fault"))
        }
    }
}

// ---------------------------------------------------------------------------------------------
// Leaf rules

/// "int in range" = fits a signed 64-bit integer.
fn int_in_range(c: &mut Ctx, i: &Item, rule: &'static str) -> Option<i64> {
    match i.as_int() {
        Some(v) => match i64::try_from(v) {
            Ok(x) => Some(x),
            Err(_) => {
                c.fault(rule, FaultKind::OutOfRange);
                None
            }
        },
        None => None,
    }
}

/// An opaque value is kept as is.  Things the subject's CBOR layer cannot represent make the
/// verdict unspecified (DESIGN.md section 7).
fn opaque(c: &mut Ctx, i: &Item) -> Item {
    if i.has_undefined() {
        c.unspec("undefined inside an opaque value");
    }
    if i.has_unassigned_simple() {
        c.unspec("unassigned simple value");
        c.parser_unspec = true;
    }
    if i.has_bignum_tag() {
        c.unspec("bignum tag");
        c.parser_unspec = true;
    }
    if i.depth() > 100 {
        c.unspec("deeply nested opaque value");
        c.parser_unspec = true;
    }
    i.clone()
}

fn check_parser_unspec(c: &mut Ctx, i: &Item) {
    // applied once to a whole input: any bignum / unassigned simple value anywhere makes the
    // accept side unspecified (the parser may fold or refuse them)
    if i.has_unassigned_simple() {
        c.unspec("unassigned simple value");
        c.parser_unspec = true;
    }
    if i.has_bignum_tag() {
        c.unspec("bignum tag");
        c.parser_unspec = true;
    }
    if i.depth() > 100 {
        c.unspec("deep nesting");
        c.parser_unspec = true;
    }
}

/// label(x): int in range, or text
fn label(c: &mut Ctx, i: &Item, rule: &'static str) -> Option<RLabel> {
    match i {
        Item::UInt(_) | Item::NInt(_) => int_in_range(c, i, rule).map(RLabel::Int),
        Item::Text(t) => Some(RLabel::Text(t.clone())),
        _ => {
            c.other(rule);
            None
        }
    }
}

/// rlabel / plabel
pub fn reg_label(c: &mut Ctx, i: &Item, rt: RegTy, rule: &'static str) -> Option<RLabel> {
    match i {
        Item::UInt(_) | Item::NInt(_) => {
            let v = int_in_range(c, i, rule)?;
            if refiana::is_registered(rt.reg, v) || (rt.with_private && refiana::is_private(v)) {
                Some(RLabel::Int(v))
            } else {
                c.other(rule);
                None
            }
        }
        Item::Text(t) => Some(RLabel::Text(t.clone())),
        _ => {
            c.other(rule);
            None
        }
    }
}

const ALG: RegTy = RegTy { reg: Reg::Algorithm, with_private: true };
const HP: RegTy = RegTy { reg: Reg::HeaderParameter, with_private: false };
const CF: RegTy = RegTy { reg: Reg::CoapContentFormat, with_private: false };
const KT: RegTy = RegTy { reg: Reg::KeyType, with_private: false };
const KO: RegTy = RegTy { reg: Reg::KeyOperation, with_private: false };
const CN: RegTy = RegTy { reg: Reg::CwtClaimName, with_private: true };

fn nonempty_bstr(c: &mut Ctx, i: &Item, rule: &'static str) -> Vec<u8> {
    match i {
        Item::Bytes(b) if !b.is_empty() => b.clone(),
        _ => {
            c.other(rule);
            vec![]
        }
    }
}

fn bstr(c: &mut Ctx, i: &Item, rule: &'static str) -> Vec<u8> {
    match i {
        Item::Bytes(b) => b.clone(),
        _ => {
            c.other(rule);
            vec![]
        }
    }
}

fn bstr_or_nil(c: &mut Ctx, i: &Item, rule: &'static str) -> Option<Vec<u8>> {
    match i {
        Item::Bytes(b) => Some(b.clone()),
        Item::Simple(22) => None,
        Item::Simple(23) => {
            c.fault(rule, FaultKind::UndefinedForNil);
            None
        }
        _ => {
            c.other(rule);
            None
        }
    }
}

/// Text content types: non-empty, exactly one '/', no leading or trailing whitespace.
fn content_type_text(c: &mut Ctx, t: &str) {
    if t.is_empty() {
        c.other("H6 content type text empty");
        return;
    }
    let first = t.chars().next().unwrap();
    let last = t.chars().last().unwrap();
    // "no leading or trailing whitespace": Unicode White_Space (which includes the ASCII controls
    // TAB, LF, VT, FF, CR and the space)
    if first.is_whitespace() || last.is_whitespace() {
        c.other("H6 content type whitespace");
    }
    if t.chars().filter(|ch| *ch == '/').count() != 1 {
        c.other("H6 content type not type/subtype");
    }
}

// ---------------------------------------------------------------------------------------------
// Structures

pub fn header_map(c: &mut Ctx, i: &Item) -> RHeader {
    let mut h = RHeader::default();
    let m = match i {
        Item::Map(m) => m,
        _ => {
            c.other("H1 not a map");
            return h;
        }
    };
    let mut seen: Vec<RLabel> = Vec::new();
    for (k, v) in m {
        let l = match label(c, k, "H2 key not a label") {
            Some(l) => l,
            None => continue,
        };
        if seen.contains(&l) {
            c.fault("H3 duplicate label", FaultKind::Duplicate);
            continue;
        }
        seen.push(l.clone());
        match l {
            RLabel::Int(1) => h.alg = reg_label(c, v, ALG, "H4 alg"),
            RLabel::Int(2) => match v {
                Item::Array(a) if !a.is_empty() => {
                    for e in a {
                        if let Some(l) = reg_label(c, e, HP, "H5 crit entry") {
                            h.crit.push(l);
                        }
                    }
                }
                _ => c.other("H5 crit not a non-empty array"),
            },
            RLabel::Int(3) => {
                h.content_type = reg_label(c, v, CF, "H6 content type");
                if let Some(RLabel::Text(t)) = &h.content_type {
                    content_type_text(c, t);
                }
            }
            RLabel::Int(4) => h.key_id = nonempty_bstr(c, v, "H7 kid"),
            RLabel::Int(5) => h.iv = nonempty_bstr(c, v, "H7 iv"),
            RLabel::Int(6) => h.partial_iv = nonempty_bstr(c, v, "H7 partial iv"),
            RLabel::Int(7) => match v {
                Item::Array(a) if !a.is_empty() => {
                  c.hdr_depth += 1;
                  if c.hdr_depth > MAX_SPECIFIED_HEADER_NESTING {
                      c.unspec("header nesting beyond the specified depth");
                      c.parser_unspec = true;
                  }
                  match &a[0] {
                    Item::Bytes(_) => {
                        let s = signature(c, v);
                        h.counter_signatures.push(s);
                    }
                    Item::Array(_) => {
                        for e in a {
                            let s = signature(c, e);
                            h.counter_signatures.push(s);
                        }
                    }
                    _ => c.other("H9 counter signature first element"),
                  }
                  c.hdr_depth -= 1;
                }
                _ => c.other("H9 counter signature not a non-empty array"),
            },
            l => h.rest.push((l, opaque(c, v))),
        }
    }
    if seen.contains(&RLabel::Int(5)) && seen.contains(&RLabel::Int(6)) {
        c.other("H8 IV and Partial IV both present");
    }
    h
}

/// The content of a protected bstr.
pub fn protected_content(c: &mut Ctx, content: &[u8]) -> RProtected {
    let mut p = RProtected { original: Some(content.to_vec()), header: RHeader::default() };
    if content.is_empty() {
        return p;
    }
    match read_all(content) {
        ReadAll::One(e) => {
            let it = e.item();
            check_parser_unspec(c, &it);
            p.header = header_map(c, &it);
        }
        ReadAll::Trailing(e, _) => {
            let it = e.item();
            check_parser_unspec(c, &it);
            c.fault("P2 trailing bytes after header map", FaultKind::Extraneous);
            // an invalid map followed by bytes has two faults
            let mut sub = Ctx { hdr_depth: c.hdr_depth, ..Default::default() };
            header_map(&mut sub, &it);
            c.faults.extend(sub.faults);
            c.parser_unspec |= sub.parser_unspec;
            for u in sub.unspec {
                c.unspec(&u);
            }
        }
        ReadAll::Err(ReadErr::TooDeep) => {
            c.unspec("deep nesting");
            c.parser_unspec = true;
        }
        ReadAll::Err(ReadErr::Malformed("two-byte simple value below 32")) => {
            c.unspec("two-byte encoding of a simple value below 32");
            c.parser_unspec = true;
        }
        ReadAll::Err(_) => c.other("P2 protected content is not one well-formed item"),
    }
    p
}

pub fn protected(c: &mut Ctx, i: &Item) -> RProtected {
    match i {
        Item::Bytes(b) => protected_content(c, b),
        _ => {
            c.other("P1 protected not a bstr");
            RProtected::default()
        }
    }
}

fn array_of<'a>(c: &mut Ctx, i: &'a Item, arities: &[usize], rule: &'static str) -> Option<&'a [Item]> {
    match i {
        Item::Array(a) if arities.contains(&a.len()) => Some(a),
        _ => {
            c.other(rule);
            None
        }
    }
}

pub fn signature(c: &mut Ctx, i: &Item) -> RSignature {
    let mut s = RSignature::default();
    if let Some(a) = array_of(c, i, &[3], "signature: array of 3") {
        s.protected = protected(c, &a[0]);
        s.unprotected = header_map(c, &a[1]);
        s.signature = bstr(c, &a[2], "signature: signature not bstr");
    }
    s
}

fn signatures(c: &mut Ctx, i: &Item) -> Vec<RSignature> {
    match i {
        Item::Array(a) => {
            if a.is_empty() {
                c.unspec("empty signatures array");
            }
            a.iter().map(|e| signature(c, e)).collect()
        }
        _ => {
            c.other("signatures not an array");
            vec![]
        }
    }
}

fn recipients(c: &mut Ctx, i: &Item) -> Vec<RRecipient> {
    match i {
        Item::Array(a) => {
            if a.is_empty() {
                c.unspec("empty recipients array");
            }
            a.iter().map(|e| recipient(c, e)).collect()
        }
        _ => {
            c.other("recipients not an array");
            vec![]
        }
    }
}

pub fn recipient(c: &mut Ctx, i: &Item) -> RRecipient {
    let mut r = RRecipient::default();
    if let Some(a) = array_of(c, i, &[3, 4], "recipient: array of 3 or 4") {
        r.protected = protected(c, &a[0]);
        r.unprotected = header_map(c, &a[1]);
        r.ciphertext = bstr_or_nil(c, &a[2], "recipient: ciphertext");
        if a.len() == 4 {
            r.recipients = recipients(c, &a[3]);
        }
    }
    r
}

pub fn sign1(c: &mut Ctx, i: &Item) -> RSign1 {
    let mut s = RSign1::default();
    if let Some(a) = array_of(c, i, &[4], "sign1: array of 4") {
        s.protected = protected(c, &a[0]);
        s.unprotected = header_map(c, &a[1]);
        s.payload = bstr_or_nil(c, &a[2], "sign1: payload");
        s.signature = bstr(c, &a[3], "sign1: signature not bstr");
    }
    s
}

pub fn sign(c: &mut Ctx, i: &Item) -> RSign {
    let mut s = RSign::default();
    if let Some(a) = array_of(c, i, &[4], "sign: array of 4") {
        s.protected = protected(c, &a[0]);
        s.unprotected = header_map(c, &a[1]);
        s.payload = bstr_or_nil(c, &a[2], "sign: payload");
        s.signatures = signatures(c, &a[3]);
    }
    s
}

pub fn mac(c: &mut Ctx, i: &Item) -> RMac {
    let mut s = RMac::default();
    if let Some(a) = array_of(c, i, &[5], "mac: array of 5") {
        s.protected = protected(c, &a[0]);
        s.unprotected = header_map(c, &a[1]);
        s.payload = bstr_or_nil(c, &a[2], "mac: payload");
        s.tag = bstr(c, &a[3], "mac: tag not bstr");
        s.recipients = recipients(c, &a[4]);
    }
    s
}

pub fn mac0(c: &mut Ctx, i: &Item) -> RMac0 {
    let mut s = RMac0::default();
    if let Some(a) = array_of(c, i, &[4], "mac0: array of 4") {
        s.protected = protected(c, &a[0]);
        s.unprotected = header_map(c, &a[1]);
        s.payload = bstr_or_nil(c, &a[2], "mac0: payload");
        s.tag = bstr(c, &a[3], "mac0: tag not bstr");
    }
    s
}

pub fn encrypt(c: &mut Ctx, i: &Item) -> REncrypt {
    let mut s = REncrypt::default();
    if let Some(a) = array_of(c, i, &[4], "encrypt: array of 4") {
        s.protected = protected(c, &a[0]);
        s.unprotected = header_map(c, &a[1]);
        s.ciphertext = bstr_or_nil(c, &a[2], "encrypt: ciphertext");
        s.recipients = recipients(c, &a[3]);
    }
    s
}

pub fn encrypt0(c: &mut Ctx, i: &Item) -> REncrypt0 {
    let mut s = REncrypt0::default();
    if let Some(a) = array_of(c, i, &[3], "encrypt0: array of 3") {
        s.protected = protected(c, &a[0]);
        s.unprotected = header_map(c, &a[1]);
        s.ciphertext = bstr_or_nil(c, &a[2], "encrypt0: ciphertext");
    }
    s
}

pub fn key(c: &mut Ctx, i: &Item) -> RKey {
    let mut k = RKey { kty: RLabel::Int(0), key_id: vec![], alg: None, key_ops: vec![], base_iv: vec![], params: vec![] };
    let m = match i {
        Item::Map(m) => m,
        _ => {
            c.other("K1 not a map");
            return k;
        }
    };
    let mut seen: Vec<RLabel> = Vec::new();
    let mut have_kty = false;
    for (kk, v) in m {
        let l = match label(c, kk, "K2 key not a label") {
            Some(l) => l,
            None => continue,
        };
        if seen.contains(&l) {
            c.fault("K3 duplicate label", FaultKind::Duplicate);
            continue;
        }
        seen.push(l.clone());
        match l {
            RLabel::Int(1) => {
                have_kty = true;
                match reg_label(c, v, KT, "K5 kty") {
                    Some(RLabel::Int(0)) => c.other("K5 kty reserved"),
                    Some(l) => k.kty = l,
                    None => {}
                }
            }
            RLabel::Int(2) => k.key_id = nonempty_bstr(c, v, "K6 kid"),
            RLabel::Int(3) => k.alg = reg_label(c, v, ALG, "K7 alg"),
            RLabel::Int(4) => match v {
                Item::Array(a) if !a.is_empty() => {
                    for e in a {
                        if let Some(l) = reg_label(c, e, KO, "K8 key_ops entry") {
                            if k.key_ops.contains(&l) {
                                c.other("K8 key_ops repeated");
                            } else {
                                k.key_ops.push(l);
                            }
                        }
                    }
                }
                _ => c.other("K8 key_ops not a non-empty array"),
            },
            RLabel::Int(5) => k.base_iv = nonempty_bstr(c, v, "K6 base iv"),
            l => k.params.push((l, opaque(c, v))),
        }
    }
    if !have_kty {
        c.other("K4 kty missing");
    }
    k
}

pub fn keyset(c: &mut Ctx, i: &Item) -> Vec<RKey> {
    match i {
        Item::Array(a) => a.iter().map(|e| key(c, e)).collect(),
        _ => {
            c.other("keyset not an array");
            vec![]
        }
    }
}

pub fn timestamp(c: &mut Ctx, i: &Item, rule: &'static str) -> Option<RTime> {
    match i {
        Item::UInt(_) | Item::NInt(_) => int_in_range(c, i, rule).map(RTime::Whole),
        Item::Float(b) => Some(RTime::Frac(*b)),
        _ => {
            c.other(rule);
            None
        }
    }
}

fn text(c: &mut Ctx, i: &Item, rule: &'static str) -> Option<String> {
    match i {
        Item::Text(t) => Some(t.clone()),
        _ => {
            c.other(rule);
            None
        }
    }
}

pub fn claims(c: &mut Ctx, i: &Item) -> RClaims {
    let mut s = RClaims::default();
    let m = match i {
        Item::Map(m) => m,
        _ => {
            c.other("W1 not a map");
            return s;
        }
    };
    let mut seen: Vec<RLabel> = Vec::new();
    for (k, v) in m {
        let l = match reg_label(c, k, CN, "W2 claim key") {
            Some(l) => l,
            None => continue,
        };
        if seen.contains(&l) {
            c.fault("W3 duplicate claim", FaultKind::Duplicate);
            continue;
        }
        seen.push(l.clone());
        match l {
            RLabel::Int(1) => s.iss = text(c, v, "W4 iss"),
            RLabel::Int(2) => s.sub = text(c, v, "W4 sub"),
            RLabel::Int(3) => s.aud = text(c, v, "W4 aud"),
            RLabel::Int(4) => s.exp = timestamp(c, v, "W5 exp"),
            RLabel::Int(5) => s.nbf = timestamp(c, v, "W5 nbf"),
            RLabel::Int(6) => s.iat = timestamp(c, v, "W5 iat"),
            RLabel::Int(7) => match v {
                Item::Bytes(b) => s.cti = Some(b.clone()),
                _ => c.other("W6 cti"),
            },
            l => s.rest.push((l, opaque(c, v))),
        }
    }
    s
}

pub fn party(c: &mut Ctx, i: &Item) -> RParty {
    let mut p = RParty::default();
    if let Some(a) = array_of(c, i, &[3], "party: array of 3") {
        p.identity = bstr_or_nil(c, &a[0], "party: identity");
        p.nonce = match &a[1] {
            Item::Bytes(b) => Some(RNonce::Bytes(b.clone())),
            Item::Simple(22) => None,
            Item::Simple(23) => {
                c.fault("party: nonce", FaultKind::UndefinedForNil);
                None
            }
            x @ (Item::UInt(_) | Item::NInt(_)) => int_in_range(c, x, "party: nonce").map(RNonce::Int),
            _ => {
                c.other("party: nonce");
                None
            }
        };
        p.other = bstr_or_nil(c, &a[2], "party: other");
    }
    p
}

pub fn supp_pub(c: &mut Ctx, i: &Item) -> RSuppPub {
    let mut s = RSuppPub::default();
    if let Some(a) = array_of(c, i, &[2, 3], "supp_pub: array of 2 or 3") {
        match &a[0] {
            Item::UInt(v) => s.key_data_length = *v,
            Item::NInt(_) => c.fault("supp_pub: key data length negative", FaultKind::OutOfRange),
            _ => c.other("supp_pub: key data length"),
        }
        s.protected = protected(c, &a[1]);
        if a.len() == 3 {
            s.other = Some(bstr(c, &a[2], "supp_pub: other"));
        }
    }
    s
}

pub fn kdf(c: &mut Ctx, i: &Item) -> RKdf {
    let mut k = RKdf { alg: RLabel::Int(0), u: RParty::default(), v: RParty::default(), supp_pub: RSuppPub::default(), supp_priv: vec![] };
    match i {
        Item::Array(a) if a.len() >= 4 => {
            if let Some(l) = reg_label(c, &a[0], ALG, "kdf: algorithm") {
                k.alg = l;
            }
            k.u = party(c, &a[1]);
            k.v = party(c, &a[2]);
            k.supp_pub = supp_pub(c, &a[3]);
            for e in &a[4..] {
                k.supp_priv.push(bstr(c, e, "kdf: trailing slot not bstr"));
            }
        }
        _ => c.other("kdf: array of at least 4"),
    }
    k
}

/// Reference decode of one item as type `ty`.
pub fn decode(ty: Ty, i: &Item) -> Verdict {
    let mut c = Ctx::default();
    check_parser_unspec(&mut c, i);
    let v = match ty {
        Ty::Header => RVal::Header(header_map(&mut c, i)),
        // ProtectedHeader::from_slice takes the *map*, not the bstr
        Ty::Protected => RVal::Protected(RProtected { original: None, header: header_map(&mut c, i) }),
        Ty::Signature => RVal::Signature(signature(&mut c, i)),
        Ty::Sign => RVal::Sign(sign(&mut c, i)),
        Ty::Sign1 => RVal::Sign1(sign1(&mut c, i)),
        Ty::Mac => RVal::Mac(mac(&mut c, i)),
        Ty::Mac0 => RVal::Mac0(mac0(&mut c, i)),
        Ty::Encrypt => RVal::Encrypt(encrypt(&mut c, i)),
        Ty::Encrypt0 => RVal::Encrypt0(encrypt0(&mut c, i)),
        Ty::Recipient => RVal::Recipient(recipient(&mut c, i)),
        Ty::Key => RVal::Key(key(&mut c, i)),
        Ty::KeySet => RVal::KeySet(keyset(&mut c, i)),
        Ty::Claims => RVal::Claims(claims(&mut c, i)),
        Ty::Party => RVal::Party(party(&mut c, i)),
        Ty::SuppPub => RVal::SuppPub(supp_pub(&mut c, i)),
        Ty::Kdf => RVal::Kdf(kdf(&mut c, i)),
        Ty::Label => match label(&mut c, i, "label") {
            Some(l) => RVal::Label(l),
            None => return c.finish(None),
        },
        Ty::RegLabel(rt) => match reg_label(&mut c, i, rt, "registered label") {
            Some(l) => RVal::RegLabel(rt, l),
            None => return c.finish(None),
        },
        Ty::Timestamp => match timestamp(&mut c, i, "timestamp") {
            Some(t) => RVal::Timestamp(t),
            None => return c.finish(None),
        },
    };
    c.finish(Some(v))
}

/// Reference decode of the *tagged* form (C14): exactly the registered tag applied once.
pub fn decode_tagged(ty: Ty, i: &Item) -> Verdict {
    let want = tag_of(ty).expect("not a taggable type");
    match i {
        Item::Tag(t, inner) if *t == want => match **inner {
            // a doubly tagged item is rejected (the inner item is not an array)
            _ => decode(ty, inner),
        },
        Item::Tag(2 | 3, b) if b.is_bytes() => Verdict::Unspecified(vec!["bignum tag".into()]),
        _ => {
            let mut c = Ctx::default();
            check_parser_unspec(&mut c, i);
            c.other("tagged: not the registered tag");
            c.finish(None)
        }
    }
}

// ---------------------------------------------------------------------------------------------
// Reference encoding (C11): value -> item

fn opt_bytes(b: &Option<Vec<u8>>) -> Item {
    match b {
        Some(b) => Item::Bytes(b.clone()),
        None => NULL,
    }
}

pub fn enc_header(h: &RHeader) -> Item {
    let mut m = Vec::new();
    if let Some(a) = &h.alg {
        m.push((Item::UInt(1), a.item()));
    }
    if !h.crit.is_empty() {
        m.push((Item::UInt(2), Item::Array(h.crit.iter().map(|l| l.item()).collect())));
    }
    if let Some(ct) = &h.content_type {
        m.push((Item::UInt(3), ct.item()));
    }
    if !h.key_id.is_empty() {
        m.push((Item::UInt(4), Item::Bytes(h.key_id.clone())));
    }
    if !h.iv.is_empty() {
        m.push((Item::UInt(5), Item::Bytes(h.iv.clone())));
    }
    if !h.partial_iv.is_empty() {
        m.push((Item::UInt(6), Item::Bytes(h.partial_iv.clone())));
    }
    if h.counter_signatures.len() == 1 {
        m.push((Item::UInt(7), enc_signature(&h.counter_signatures[0])));
    } else if h.counter_signatures.len() > 1 {
        m.push((Item::UInt(7), Item::Array(h.counter_signatures.iter().map(enc_signature).collect())));
    }
    for (l, v) in &h.rest {
        m.push((l.item(), v.clone()));
    }
    Item::Map(m)
}

/// The byte string that goes into a protected slot: retained bytes if any, else empty for an empty
/// header, else the deterministic encoding of the header's map.  (Map entry order of a serialised
/// in-memory header is not pinned by any property; callers that compare against the subject's
/// output compare the *parsed* content, see `protected_slot_matches`.)
pub fn enc_protected_bytes(p: &RProtected) -> Vec<u8> {
    if let Some(o) = &p.original {
        o.clone()
    } else if p.header.is_empty() {
        vec![]
    } else {
        enc_header(&p.header).det()
    }
}

pub fn enc_protected(p: &RProtected) -> Item {
    Item::Bytes(enc_protected_bytes(p))
}

pub fn enc_signature(s: &RSignature) -> Item {
    Item::Array(vec![enc_protected(&s.protected), enc_header(&s.unprotected), Item::Bytes(s.signature.clone())])
}

pub fn enc_recipient(r: &RRecipient) -> Item {
    let mut a = vec![enc_protected(&r.protected), enc_header(&r.unprotected), opt_bytes(&r.ciphertext)];
    if !r.recipients.is_empty() {
        a.push(Item::Array(r.recipients.iter().map(enc_recipient).collect()));
    }
    Item::Array(a)
}

pub fn enc_key(k: &RKey) -> Item {
    let mut m = vec![(Item::UInt(1), k.kty.item())];
    if !k.key_id.is_empty() {
        m.push((Item::UInt(2), Item::Bytes(k.key_id.clone())));
    }
    if let Some(a) = &k.alg {
        m.push((Item::UInt(3), a.item()));
    }
    if !k.key_ops.is_empty() {
        m.push((Item::UInt(4), Item::Array(k.key_ops.iter().map(|l| l.item()).collect())));
    }
    if !k.base_iv.is_empty() {
        m.push((Item::UInt(5), Item::Bytes(k.base_iv.clone())));
    }
    for (l, v) in &k.params {
        m.push((l.item(), v.clone()));
    }
    Item::Map(m)
}

fn enc_time(t: &RTime) -> Item {
    match t {
        RTime::Whole(i) => Item::int(*i as i128),
        RTime::Frac(b) => Item::Float(*b),
    }
}

pub fn enc_claims(c: &RClaims) -> Item {
    let mut m = Vec::new();
    if let Some(x) = &c.iss {
        m.push((Item::UInt(1), Item::Text(x.clone())));
    }
    if let Some(x) = &c.sub {
        m.push((Item::UInt(2), Item::Text(x.clone())));
    }
    if let Some(x) = &c.aud {
        m.push((Item::UInt(3), Item::Text(x.clone())));
    }
    if let Some(x) = &c.exp {
        m.push((Item::UInt(4), enc_time(x)));
    }
    if let Some(x) = &c.nbf {
        m.push((Item::UInt(5), enc_time(x)));
    }
    if let Some(x) = &c.iat {
        m.push((Item::UInt(6), enc_time(x)));
    }
    if let Some(x) = &c.cti {
        m.push((Item::UInt(7), Item::Bytes(x.clone())));
    }
    for (l, v) in &c.rest {
        m.push((l.item(), v.clone()));
    }
    Item::Map(m)
}

pub fn enc_party(p: &RParty) -> Item {
    Item::Array(vec![
        opt_bytes(&p.identity),
        match &p.nonce {
            None => NULL,
            Some(RNonce::Bytes(b)) => Item::Bytes(b.clone()),
            Some(RNonce::Int(i)) => Item::int(*i as i128),
        },
        opt_bytes(&p.other),
    ])
}

pub fn enc_supp_pub(s: &RSuppPub) -> Item {
    let mut a = vec![Item::UInt(s.key_data_length), enc_protected(&s.protected)];
    if let Some(o) = &s.other {
        a.push(Item::Bytes(o.clone()));
    }
    Item::Array(a)
}

pub fn encode(v: &RVal) -> Item {
    match v {
        RVal::Header(h) => enc_header(h),
        RVal::Protected(p) => enc_header(&p.header),
        RVal::Signature(s) => enc_signature(s),
        RVal::Sign(s) => Item::Array(vec![
            enc_protected(&s.protected),
            enc_header(&s.unprotected),
            opt_bytes(&s.payload),
            Item::Array(s.signatures.iter().map(enc_signature).collect()),
        ]),
        RVal::Sign1(s) => Item::Array(vec![
            enc_protected(&s.protected),
            enc_header(&s.unprotected),
            opt_bytes(&s.payload),
            Item::Bytes(s.signature.clone()),
        ]),
        RVal::Mac(s) => Item::Array(vec![
            enc_protected(&s.protected),
            enc_header(&s.unprotected),
            opt_bytes(&s.payload),
            Item::Bytes(s.tag.clone()),
            Item::Array(s.recipients.iter().map(enc_recipient).collect()),
        ]),
        RVal::Mac0(s) => Item::Array(vec![
            enc_protected(&s.protected),
            enc_header(&s.unprotected),
            opt_bytes(&s.payload),
            Item::Bytes(s.tag.clone()),
        ]),
        RVal::Encrypt(s) => Item::Array(vec![
            enc_protected(&s.protected),
            enc_header(&s.unprotected),
            opt_bytes(&s.ciphertext),
            Item::Array(s.recipients.iter().map(enc_recipient).collect()),
        ]),
        RVal::Encrypt0(s) => {
            Item::Array(vec![enc_protected(&s.protected), enc_header(&s.unprotected), opt_bytes(&s.ciphertext)])
        }
        RVal::Recipient(r) => enc_recipient(r),
        RVal::Key(k) => enc_key(k),
        RVal::KeySet(ks) => Item::Array(ks.iter().map(enc_key).collect()),
        RVal::Claims(c) => enc_claims(c),
        RVal::Party(p) => enc_party(p),
        RVal::SuppPub(s) => enc_supp_pub(s),
        RVal::Kdf(k) => {
            let mut a = vec![k.alg.item(), enc_party(&k.u), enc_party(&k.v), enc_supp_pub(&k.supp_pub)];
            for s in &k.supp_priv {
                a.push(Item::Bytes(s.clone()));
            }
            Item::Array(a)
        }
        RVal::Label(l) | RVal::RegLabel(_, l) => l.item(),
        RVal::Timestamp(t) => enc_time(t),
    }
}

// ---------------------------------------------------------------------------------------------
// Crypto structures (RFC 8152 sections 4.4, 5.3, 6.3)

pub fn sig_structure(context: &str, body: &[u8], sign: Option<&[u8]>, aad: &[u8], payload: &[u8]) -> Vec<u8> {
    let mut a = vec![Item::text(context), Item::bytes(body)];
    if let Some(s) = sign {
        a.push(Item::bytes(s));
    }
    a.push(Item::bytes(aad));
    a.push(Item::bytes(payload));
    Item::Array(a).det()
}

pub fn mac_structure(context: &str, protected: &[u8], aad: &[u8], payload: &[u8]) -> Vec<u8> {
    Item::Array(vec![Item::text(context), Item::bytes(protected), Item::bytes(aad), Item::bytes(payload)]).det()
}

pub fn enc_structure(context: &str, protected: &[u8], aad: &[u8]) -> Vec<u8> {
    Item::Array(vec![Item::text(context), Item::bytes(protected), Item::bytes(aad)]).det()
}

/// Compare two items as the properties demand for encoder output: maps modulo entry order
/// (recursively), everything else exactly.
pub fn eq_mod_map_order(a: &Item, b: &Item) -> bool {
    match (a, b) {
        (Item::Map(x), Item::Map(y)) => {
            if x.len() != y.len() {
                return false;
            }
            let mut used = vec![false; y.len()];
            'outer: for (k, v) in x {
                for (j, (k2, v2)) in y.iter().enumerate() {
                    if !used[j] && k == k2 && eq_mod_map_order(v, v2) {
                        used[j] = true;
                        continue 'outer;
                    }
                }
                return false;
            }
            true
        }
        (Item::Array(x), Item::Array(y)) => x.len() == y.len() && x.iter().zip(y).all(|(p, q)| eq_mod_map_order(p, q)),
        (Item::Tag(t, x), Item::Tag(u, y)) => t == u && eq_mod_map_order(x, y),
        _ => a == b,
    }
}
